//! C38 dynamic heap size stays within its bounds: BFS over histories of pending-allocation
//! notifications and GC ends with explicit statistics on the real `MemBalancerTrigger`
//! (constructed standalone through the `verif` hooks; the computation is the real
//! `compute_new_heap_limit`), for several `(min, max)` and value grids.
//!
//! What `on_gc_start/on_gc_release/on_gc_end` do is: read the clock and the plan's page counts
//! into the four statistics of the current estimation, call `compute_new_heap_limit(live,
//! extra_reserve, stats)` (non-generational plans: at every GC end; generational plans: at the end
//! of full-heap GCs only) and finally clear the pending pages.  The hook replaces only the
//! *sources* of the statistics:
//!   gc_end(live, extra, [alloc_pages, alloc_time, gc_pages, gc_time])
//!       = set_current_stats(..); compute_new_heap_limit(live, extra); clear_pending()
//!   nursery_gc_end = clear_pending()            (generational nursery GC: no new limit)
//!   pending(p)     = on_pending_allocation(p)   (the real trait method)
//! The statistics of the previous estimation are produced by the histories themselves
//! (compute_new_heap_limit saves the current ones).
//!
//! Oracle (the property): after every event `min <= get_current_heap_size_in_pages() <= max` and
//! `get_max_heap_size_in_pages() == max`; no event panics for statistics inside the reachable
//! domain (pages <= 2^35 = a 47-bit address space, times 0 or in [1 ns, 1e6 s]).  Values outside
//! that domain (NaN, infinities, negative or subnormal times, page counts up to usize::MAX) are
//! *probed* separately: there only the bound is checked when the call returns, and arithmetic
//! overflow panics are counted and reported, not flagged.

use crate::common::{catch, last_panic_location, Run};
use crate::seqx::{self, Subject};
use crate::vm::VerifVM;
use mmtk::util::verif::c38::{FixedHeap, MemBalancer};
use serde_json::{json, Value};
use std::cell::Cell;

const HUGE_PAGES: usize = 1 << 35;

#[derive(Clone, Debug)]
pub struct Cfg {
    pub min: usize,
    pub max: usize,
    /// value-grid variant
    pub variant: u8,
}

impl Cfg {
    fn mid(&self) -> usize {
        self.min + (self.max - self.min) / 2
    }
    /// page counts offered for live / extra_reserve / allocation_pages / collection_pages
    pub fn pages(&self) -> Vec<usize> {
        let mut v = match self.variant {
            // {0, 1, typical, huge}
            0 => vec![0, 1, self.mid().max(2), HUGE_PAGES],
            // around the bounds: live+extra lands just below min / just above max
            1 => vec![0, self.min.saturating_sub(1).max(2), self.max + 1, (1 << 20) + 3],
            // corner of the domain
            2 => vec![0, 1, HUGE_PAGES],
            // thorough only: five values
            _ => vec![0, 1, 3, self.mid().max(2) + 1, self.max.saturating_sub(1).max(5)],
        };
        v.dedup();
        v
    }
    /// durations in seconds
    pub fn times(&self) -> Vec<f64> {
        match self.variant {
            0 => vec![0.0, 1.0, 0.05, 1e6],
            1 => vec![0.0, 1e-9, 1e-3, 3600.0],
            2 => vec![0.0, 1e-9, 1e6],
            _ => vec![0.0, 1e-9, 0.25, 7.0, 1e5],
        }
    }
    /// pending allocation sizes: 0, 1, the values that put `pending` alone just below min, at max,
    /// just above max, and huge
    pub fn pendings(&self) -> Vec<usize> {
        let mut v = vec![0, 1, self.min.saturating_sub(1), self.max, self.max + 1, HUGE_PAGES];
        v.sort();
        v.dedup();
        v
    }
}

#[derive(Clone, Debug, PartialEq)]
pub enum Op {
    Pending(usize),
    GcEnd { live: usize, extra: usize, cur: [f64; 4] },
    NurseryGcEnd,
}

pub struct St {
    pub real: MemBalancer,
}

#[derive(Default)]
pub struct Counters {
    pub at_min: Cell<u64>,
    pub at_max: Cell<u64>,
    pub inside: Cell<u64>,
    pub fallback: Cell<u64>,
}

pub struct MbSubject {
    pub cfg: Cfg,
    pub ops: Vec<Op>,
    pub counters: Counters,
    pub use_snapshots: bool,
}

impl MbSubject {
    pub fn new(cfg: Cfg, use_snapshots: bool) -> Self {
        let mut ops = vec![];
        for p in cfg.pendings() {
            ops.push(Op::Pending(p));
        }
        ops.push(Op::NurseryGcEnd);
        let pages = cfg.pages();
        let times = cfg.times();
        for &live in &pages {
            for &extra in &pages {
                for &ap in &pages {
                    for &at in &times {
                        for &gp in &pages {
                            for &gt in &times {
                                ops.push(Op::GcEnd { live, extra, cur: [ap as f64, at, gp as f64, gt] });
                            }
                        }
                    }
                }
            }
        }
        MbSubject { cfg, ops, counters: Counters::default(), use_snapshots }
    }
}

fn apply_op(real: &MemBalancer, op: &Op) {
    match *op {
        Op::Pending(p) => real.on_pending_allocation::<VerifVM>(p),
        Op::GcEnd { live, extra, cur } => {
            real.set_current_stats(cur);
            real.compute_new_heap_limit(live, extra);
            real.clear_pending();
        }
        Op::NurseryGcEnd => real.clear_pending(),
    }
}

/// The property, on the values the binding can read.
fn check_bounds(real: &MemBalancer, min: usize, max: usize) -> Result<usize, String> {
    let cur = real.get_current_heap_size_in_pages::<VerifVM>();
    let s = real.state();
    if s.2 != cur {
        return Err(format!("get_current_heap_size_in_pages() = {} but current_heap_pages = {}", cur, s.2));
    }
    if cur < min {
        return Err(format!("current heap size {} pages is below min {} (max {})", cur, min, max));
    }
    if cur > max {
        return Err(format!("current heap size {} pages is above max {} (min {})", cur, max, min));
    }
    let m = real.get_max_heap_size_in_pages::<VerifVM>();
    if m != max {
        return Err(format!("get_max_heap_size_in_pages() = {}, configured max {}", m, max));
    }
    Ok(cur)
}

impl Subject for MbSubject {
    type Op = Op;
    type State = St;
    /// (previous statistics as bits, pending pages)
    type Snap = ([Option<u64>; 4], usize);
    fn name(&self) -> String {
        format!("membalancer[min={},max={},grid={}]", self.cfg.min, self.cfg.max, self.cfg.variant)
    }
    fn fresh(&self) -> St {
        St { real: MemBalancer::new(self.cfg.min, self.cfg.max) }
    }
    fn snapshot(&self, st: &St) -> Option<Self::Snap> {
        if !self.use_snapshots {
            return None;
        }
        let s = st.real.state();
        Some((s.4.map(|p| p.map(f64::to_bits)), s.3))
    }
    fn restore(&self, snap: &Self::Snap) -> St {
        // every field that later events read: the previous statistics and the pending pages (the
        // current statistics are zero after every event; current_heap_pages is only ever written)
        let st = self.fresh();
        st.real.set_prev_stats(snap.0.map(|p| p.map(f64::from_bits)));
        if snap.1 > 0 {
            st.real.on_pending_allocation::<VerifVM>(snap.1);
        }
        st
    }
    fn enabled(&self, _st: &St) -> Vec<Op> {
        self.ops.clone()
    }
    fn apply(&self, st: &mut St, op: &Op) -> Result<bool, String> {
        apply_op(&st.real, op);
        let cur = check_bounds(&st.real, self.cfg.min, self.cfg.max)?;
        if let Op::GcEnd { cur: stats, .. } = op {
            let c = &self.counters;
            let s = st.real.state();
            // which branch of the estimate ran cannot be observed from outside; count the events
            // whose own statistics contain a zero (with no history they take the fallback)
            if stats.iter().any(|x| *x == 0.0) && s.4.iter().all(|p| p.is_some()) {
                c.fallback.set(c.fallback.get() + 1);
            }
            if cur == self.cfg.min {
                c.at_min.set(c.at_min.get() + 1);
            }
            if cur == self.cfg.max {
                c.at_max.set(c.at_max.get() + 1);
            }
            if cur > self.cfg.min && cur < self.cfg.max {
                c.inside.set(c.inside.get() + 1);
            }
            return Ok(cur == self.cfg.min || cur == self.cfg.max);
        }
        Ok(false)
    }
    fn check(&self, _st: &St) -> Result<(), String> {
        // done in apply (the bound is the whole observable state of interest)
        Ok(())
    }
    fn key(&self, st: &St) -> Vec<u8> {
        let s = st.real.state();
        let mut k = Vec::with_capacity(48);
        for p in s.4 {
            match p {
                None => k.push(0),
                Some(x) => {
                    k.push(1);
                    k.extend_from_slice(&x.to_bits().to_le_bytes());
                }
            }
        }
        for x in s.5 {
            k.extend_from_slice(&x.to_bits().to_le_bytes());
        }
        k.extend_from_slice(&s.3.to_le_bytes());
        k
    }
    fn op_json(&self, op: &Op) -> Value {
        op_json(op)
    }
    fn signature(&self, op: &Op, msg: &str) -> String {
        let o = match op {
            Op::Pending(_) => "pending",
            Op::GcEnd { .. } => "gc_end",
            Op::NurseryGcEnd => "nursery_gc_end",
        };
        let class = if msg.starts_with("panic") {
            if msg.contains("overflow") {
                "panic_overflow"
            } else {
                "panic"
            }
        } else if msg.contains("below min") {
            "below_min"
        } else if msg.contains("above max") {
            "above_max"
        } else {
            "accessor"
        };
        format!("{}:{}", o, class)
    }
}

fn op_json(op: &Op) -> Value {
    match *op {
        Op::Pending(p) => json!({"op": "pending", "pages": p}),
        Op::GcEnd { live, extra, cur } => json!({"op": "gc_end", "live": live, "extra": extra,
            "stats_bits": cur.iter().map(|x| x.to_bits()).collect::<Vec<u64>>(),
            "stats": format!("alloc_pages={:e} alloc_time={:e} gc_pages={:e} gc_time={:e}", cur[0], cur[1], cur[2], cur[3])}),
        Op::NurseryGcEnd => json!({"op": "nursery_gc_end"}),
    }
}

fn op_from_json(v: &Value) -> Op {
    match v["op"].as_str().unwrap_or("") {
        "pending" => Op::Pending(v["pages"].as_u64().unwrap() as usize),
        "gc_end" => {
            let b: Vec<f64> = v["stats_bits"].as_array().unwrap().iter().map(|x| f64::from_bits(x.as_u64().unwrap())).collect();
            Op::GcEnd { live: v["live"].as_u64().unwrap() as usize, extra: v["extra"].as_u64().unwrap() as usize, cur: [b[0], b[1], b[2], b[3]] }
        }
        _ => Op::NurseryGcEnd,
    }
}

fn cfg_json(c: &Cfg) -> Value {
    json!({"min": c.min, "max": c.max, "variant": c.variant})
}

fn cfg_from_json(v: &Value) -> Cfg {
    Cfg { min: v["min"].as_u64().unwrap() as usize, max: v["max"].as_u64().unwrap() as usize, variant: v["variant"].as_u64().unwrap() as u8 }
}

// ---------------------------------------------------------------------------------------------
// FixedHeapSizeTrigger: constant

fn fixed(run: &mut Run) {
    let pend = [0usize, 1, 7, 1 << 20, HUGE_PAGES, usize::MAX];
    let depth = run.tier.pick(3, 4);
    let mut evals = 0u64;
    for total in [1usize, 8, 64, 1 << 20, HUGE_PAGES] {
        // all sequences of `depth` pending notifications (the only state-changing callback that can
        // be driven without an MMTK instance; on_gc_* are the trait's empty defaults)
        let n = pend.len().pow(depth as u32);
        for code in 0..n {
            let t = FixedHeap::new(total);
            let mut c = code;
            let mut hist = vec![];
            for _ in 0..depth {
                let p = pend[c % pend.len()];
                c /= pend.len();
                hist.push(p);
                t.on_pending_allocation::<VerifVM>(p);
                evals += 1;
                let (cur, max, grow) = (t.get_current_heap_size_in_pages::<VerifVM>(), t.get_max_heap_size_in_pages::<VerifVM>(), t.can_heap_size_grow::<VerifVM>());
                if cur != total || max != total || grow {
                    run.violation("fixed:changed", format!("FixedHeapSize({}) after pending {:?}: current {} max {} can_grow {}", total, hist, cur, max, grow), json!({"kind": "fixed", "total": total, "pending": hist}));
                }
            }
        }
    }
    run.add("fixed_heap_evaluations", evals);
    run.add("evaluations", evals);
    run.add("traces_validated_against_impl", evals);
}

// ---------------------------------------------------------------------------------------------
// Probe of values outside the reachable domain

const PROBE_F: [f64; 7] = [0.0, 1.0, f64::NAN, f64::INFINITY, -1.0, 5e-324, f64::MAX];
const PROBE_P: [usize; 5] = [0, 1, HUGE_PAGES, 1 << 52, usize::MAX];

struct ProbeCase {
    min: usize,
    max: usize,
    prev: [Option<f64>; 4],
    cur: [f64; 4],
    live: usize,
    extra: usize,
    pending: usize,
}

fn probe_json(c: &ProbeCase) -> Value {
    json!({"kind": "probe", "min": c.min, "max": c.max,
        "prev_bits": c.prev.iter().map(|p| p.map(f64::to_bits)).collect::<Vec<_>>(),
        "cur_bits": c.cur.iter().map(|x| x.to_bits()).collect::<Vec<_>>(),
        "text": format!("prev={:?} cur={:?}", c.prev, c.cur),
        "live": c.live, "extra": c.extra, "pending": c.pending})
}

/// 0 = in range, 1 = overflow panic, 2 = other panic; Err = returned out of range
fn probe_one(c: &ProbeCase) -> Result<(u8, String), String> {
    let t = MemBalancer::new(c.min, c.max);
    t.set_prev_stats(c.prev);
    if c.pending > 0 {
        t.on_pending_allocation::<VerifVM>(c.pending);
    }
    t.set_current_stats(c.cur);
    match catch(|| t.compute_new_heap_limit(c.live, c.extra)) {
        Ok(()) => check_bounds(&t, c.min, c.max).map(|_| (0, String::new())),
        Err(p) => Ok((if p.contains("overflow") { 1 } else { 2 }, format!("{} @ {}", p, last_panic_location()))),
    }
}

fn probe(run: &mut Run, min: usize, max: usize) {
    let thorough = run.tier == crate::common::Tier::Thorough;
    let mut counts = [0u64; 3];
    let mut first_overflow: Option<Value> = None;
    let mut other_panics: Vec<Value> = vec![];
    let nf = PROBE_F.len();
    let mut one = |run: &mut Run, c: ProbeCase| match probe_one(&c) {
        Ok((k, msg)) => {
            counts[k as usize] += 1;
            if k == 1 && first_overflow.is_none() {
                first_overflow = Some(json!({"case": probe_json(&c), "panic": msg}));
            }
            if k == 2 && other_panics.len() < 3 {
                other_panics.push(json!({"case": probe_json(&c), "panic": msg}));
            }
        }
        Err(m) => run.violation("probe:out_of_range", m, probe_json(&c)),
    };
    let stats_of = |code: usize| [PROBE_F[code % nf], PROBE_F[code / nf % nf], PROBE_F[code / nf / nf % nf], PROBE_F[code / nf / nf / nf % nf]];
    // no history: all statistics x all page arguments
    for code in 0..nf.pow(4) {
        for &live in &PROBE_P {
            for &extra in &PROBE_P {
                for &pending in &PROBE_P {
                    one(run, ProbeCase { min, max, prev: [None; 4], cur: stats_of(code), live, extra, pending });
                }
            }
        }
    }
    // with a previous estimation (smoothing mixes the two): previous x current statistics
    let step = if thorough { 1 } else { 49 };
    let mut pcode = 0;
    while pcode < nf.pow(4) {
        let prev = stats_of(pcode).map(Some);
        for code in 0..nf.pow(4) {
            for live in [1usize, usize::MAX] {
                one(run, ProbeCase { min, max, prev, cur: stats_of(code), live, extra: 0, pending: 0 });
            }
        }
        pcode += step;
    }
    let total: u64 = counts.iter().sum();
    run.add("probe_evaluations", total);
    run.add("probe_in_range", counts[0]);
    run.add("probe_overflow_panics_outside_domain", counts[1]);
    run.add("probe_other_panics_outside_domain", counts[2]);
    run.add("evaluations", total);
    run.add("traces_validated_against_impl", total);
    if let Some(v) = first_overflow {
        run.set("probe_first_overflow_panic", v);
    }
    if !other_panics.is_empty() {
        run.set("probe_other_panic_examples", Value::Array(other_panics));
    }
}

/// Where the reachable domain ends: finite positive statistics just outside it.  Recorded, not
/// flagged.
fn domain_edge(run: &mut Run) {
    let mut out = vec![];
    for (what, live, cur) in [
        ("inside: 2^35 pages, 1 ns mutator time, 1e6 s collecting 1 page", HUGE_PAGES, [HUGE_PAGES as f64, 1e-9, 1.0, 1e6]),
        ("outside: same with a 1e9 s (31 years) collection", HUGE_PAGES, [HUGE_PAGES as f64, 1e-9, 1.0, 1e9]),
        ("outside: 2^52 pages (a full 64-bit address space), 1 ns mutator time, 1 s collecting 1 page", 1usize << 52, [(1u64 << 52) as f64, 1e-9, 1.0, 1.0]),
    ] {
        let c = ProbeCase { min: 64, max: 1 << 20, prev: [None; 4], cur, live, extra: 0, pending: 0 };
        let r = match probe_one(&c) {
            Ok((0, _)) => "in range".to_string(),
            Ok((_, m)) => format!("panic: {}", m),
            Err(m) => {
                run.violation("probe:out_of_range", m.clone(), probe_json(&c));
                m
            }
        };
        out.push(json!({"what": what, "live": live, "stats": format!("{:?}", cur), "outcome": r}));
        run.add("evaluations", 1);
        run.add("traces_validated_against_impl", 1);
    }
    run.set("domain_edge_examples", Value::Array(out));
}

// ---------------------------------------------------------------------------------------------

const MINMAX: [(usize, usize); 4] = [(1, 1), (8, 64), (64, 1 << 20), (0, 5)];

pub fn configs(run: &Run) -> Vec<Cfg> {
    let mut v = vec![];
    let variants: Vec<u8> = run.tier.pick(vec![0, 1, 2], vec![0, 1, 2, 3]);
    for (min, max) in MINMAX {
        for &variant in &variants {
            // quick: the extra (0, 5) bounds (min = 0 is legal: `DynamicHeapSize:0,..`) only on the
            // three-value grid
            if (min, max) == (0, 5) && variant != 2 && run.tier == crate::common::Tier::Quick {
                continue;
            }
            v.push(Cfg { min, max, variant });
        }
    }
    v
}

/// Depth bound per grid: the five-value grid of the thorough tier has a 15 632-letter alphabet.
fn depth_of(run: &Run, c: &Cfg) -> usize {
    match c.variant {
        3 => 4,
        _ => run.tier.pick(4, 6),
    }
}

enum Job {
    Bfs(Cfg, usize),
    Probe(usize, usize),
    Fixed,
    /// the snapshot fast path (previous statistics + pending restored through the hook) must be
    /// indistinguishable from replaying the history: both explorations of one configuration
    Crosscheck,
}

pub fn run(run: &mut Run) {
    let cfgs = configs(run);
    let mut jobs: Vec<Job> = cfgs.iter().map(|c| Job::Bfs(c.clone(), depth_of(run, c))).collect();
    // largest first
    jobs.sort_by_key(|j| match j {
        Job::Bfs(c, d) => std::cmp::Reverse(c.pages().len().pow(4) * c.times().len().pow(2) * d),
        _ => std::cmp::Reverse(0),
    });
    for (min, max) in &MINMAX[..3] {
        jobs.push(Job::Probe(*min, *max));
    }
    jobs.push(Job::Fixed);
    jobs.push(Job::Crosscheck);
    let next = std::sync::atomic::AtomicUsize::new(0);
    let results: std::sync::Mutex<Vec<Option<(Value, Option<Value>)>>> = std::sync::Mutex::new((0..jobs.len()).map(|_| None).collect());
    let (tier, id) = (run.tier, run.id.clone());
    std::thread::scope(|sc| {
        for _ in 0..run.jobs.min(jobs.len()).max(1) {
            sc.spawn(|| {
                crate::common::quiet_panics();
                loop {
                    let i = next.fetch_add(1, std::sync::atomic::Ordering::SeqCst);
                    if i >= jobs.len() {
                        break;
                    }
                    let mut sub = Run::new(&id, tier);
                    let mut per_cfg = None;
                    let t0 = std::time::Instant::now();
                    match &jobs[i] {
                        Job::Bfs(c, depth) => {
                            let subj = MbSubject::new(c.clone(), true);
                            let mut st = seqx::bfs(&subj, &mut sub, cfg_json(c), *depth, usize::MAX);
                            // the depth bound is the stated space; there is no state cap
                            st.closed = true;
                            seqx::add_stats(&mut sub, &st);
                            let k = &subj.counters;
                            sub.add("gc_end_results_at_min", k.at_min.get());
                            sub.add("gc_end_results_at_max", k.at_max.get());
                            sub.add("gc_end_results_strictly_inside", k.inside.get());
                            sub.add("gc_end_with_zero_statistic_after_history", k.fallback.get());
                            per_cfg = Some(json!({"min": c.min, "max": c.max, "grid": c.variant, "depth": depth, "alphabet": subj.ops.len(), "states": st.states, "transitions": st.transitions,
                                "gc_end_results_at_min": k.at_min.get(), "gc_end_results_at_max": k.at_max.get(), "gc_end_results_strictly_inside": k.inside.get()}));
                        }
                        Job::Probe(min, max) => probe(&mut sub, *min, *max),
                        Job::Fixed => fixed(&mut sub),
                        Job::Crosscheck => {
                            let c = Cfg { min: 8, max: 64, variant: 2 };
                            let mut a = Run::new(&id, tier);
                            let mut b = Run::new(&id, tier);
                            let sa = seqx::bfs(&MbSubject::new(c.clone(), true), &mut a, cfg_json(&c), 3, usize::MAX);
                            let sb = seqx::bfs(&MbSubject::new(c.clone(), false), &mut b, cfg_json(&c), 3, usize::MAX);
                            if (sa.states, sa.transitions, sa.nontrivial) != (sb.states, sb.transitions, sb.nontrivial) || a.violations.len() != b.violations.len() {
                                crate::common::machinery_failure(&format!("snapshot/replay divergence: {:?} vs {:?}", sa, sb));
                            }
                            sub.add("snapshot_vs_replay_crosscheck_transitions", sb.transitions);
                        }
                    }
                    if std::env::var("VERIF_TIMING").is_ok() {
                        eprintln!("[c38] job {} took {:.1}s", i, t0.elapsed().as_secs_f64());
                    }
                    results.lock().unwrap()[i] = Some((sub.to_child_json(), per_cfg));
                }
            });
        }
    });
    let mut per_cfg = vec![];
    for r in results.into_inner().unwrap() {
        let (child, pc) = r.unwrap();
        run.absorb_child_json(&child);
        if let Some(pc) = pc {
            per_cfg.push(pc);
        }
    }
    run.set("per_config", Value::Array(per_cfg));
    run.set("configurations", cfgs.len() as u64);
    domain_edge(run);

    // samples: real executions
    for (c, h) in [
        (Cfg { min: 8, max: 64, variant: 0 }, vec![Op::Pending(65), Op::GcEnd { live: 0, extra: 0, cur: [0.0; 4] }, Op::GcEnd { live: 0, extra: 0, cur: [0.0; 4] }]),
        (Cfg { min: 64, max: 1 << 20, variant: 0 }, vec![Op::GcEnd { live: 1000, extra: 10, cur: [500.0, 2.0, 1000.0, 0.05] }, Op::Pending(7), Op::GcEnd { live: 2000, extra: 10, cur: [900.0, 1.5, 2000.0, 0.1] }]),
        (Cfg { min: 64, max: 1 << 20, variant: 2 }, vec![Op::GcEnd { live: HUGE_PAGES, extra: HUGE_PAGES, cur: [HUGE_PAGES as f64, 1e-9, 1.0, 1e6] }, Op::NurseryGcEnd, Op::GcEnd { live: 1, extra: 0, cur: [0.0, 0.0, 0.0, 0.0] }]),
    ] {
        let t = MemBalancer::new(c.min, c.max);
        let mut sizes = vec![];
        for op in &h {
            apply_op(&t, op);
            sizes.push(t.get_current_heap_size_in_pages::<VerifVM>());
        }
        run.sample(json!({"min": c.min, "max": c.max, "history": h.iter().map(op_json).collect::<Vec<_>>(), "heap_size_after_each_event": sizes}));
    }
    let depth = run.tier.pick(4, 6);
    run.set("rule", format!("BFS over all histories of <= {} events (<= 4 for the five-value grid) over {{pending(p), nursery_gc_end, gc_end(live, extra_reserve, alloc_pages, alloc_time, gc_pages, gc_time)}} with every field ranging over the grid of the configuration (pages: {{0,1,typical,2^35}} / values around min and max / domain corner; times: {{0, 1 ns .. 1e6 s}}), for (min,max) in {{(1,1),(8,64),(64,2^20),(0,5)}}; states merged on (previous statistics, pending pages) = everything later events read; oracle after every event: min <= current heap size <= max, max constant, no panic.  Non-trivial = a gc_end whose result lies on a bound (the clamp decided or coincided); results strictly inside are counted separately.  Plus FixedHeapSizeTrigger over all pending histories (constant), plus a probe of statistics outside the reachable domain (NaN, infinities, negatives, subnormals, page counts up to usize::MAX) where only the bound is checked", depth));
    run.assume("statistics reachable through on_gc_start/on_gc_release/on_gc_end: page counts are usize values bounded by the address space (<= 2^35 pages of 4 KiB in 47 bits), times are sums of Instant differences: 0 or >= 1 ns, finite; inside this domain no arithmetic overflow is tolerated, outside it overflow panics of `live + e as usize + extra_reserve + pending_pages` are only reported");
    run.assume("the glue of on_gc_end (collect statistics; compute_new_heap_limit; pending_pages = 0) is mirrored by the harness through hooks; the plan-dependent choice of live/extra_reserve and of when to compute (generational: full-heap GCs only) is covered by offering nursery_gc_end and arbitrary live/extra values");
    run.assume("current_heap_pages is write-only inside MemBalancerTrigger (read only by getters), so it is not part of the merge key");
}

pub fn replay(case: &Value, run: &mut Run) {
    match case["kind"].as_str() {
        Some("fixed") => {
            let total = case["total"].as_u64().unwrap() as usize;
            let t = FixedHeap::new(total);
            for p in case["pending"].as_array().unwrap() {
                t.on_pending_allocation::<VerifVM>(p.as_u64().unwrap() as usize);
                if t.get_current_heap_size_in_pages::<VerifVM>() != total || t.get_max_heap_size_in_pages::<VerifVM>() != total || t.can_heap_size_grow::<VerifVM>() {
                    run.violation("replay", "fixed heap size changed", case.clone());
                }
            }
        }
        Some("probe") => {
            let f = |k: &str| -> Vec<Option<f64>> { case[k].as_array().unwrap().iter().map(|x| x.as_u64().map(f64::from_bits)).collect() };
            let (p, c) = (f("prev_bits"), f("cur_bits"));
            let g = |k: &str| case[k].as_u64().unwrap() as usize;
            let pc = ProbeCase { min: g("min"), max: g("max"), prev: [p[0], p[1], p[2], p[3]], cur: [c[0].unwrap(), c[1].unwrap(), c[2].unwrap(), c[3].unwrap()], live: g("live"), extra: g("extra"), pending: g("pending") };
            if let Err(m) = probe_one(&pc) {
                run.violation("replay", m, case.clone());
            }
        }
        _ => {
            let c = cfg_from_json(&case["cfg"]);
            let s = MbSubject::new(c, false);
            let hist: Vec<Op> = case["history"].as_array().unwrap().iter().map(op_from_json).collect();
            match seqx::replay(&s, &hist) {
                Ok(_) => {}
                Err((i, m)) => run.violation("replay", format!("step {}: {}", i, m), case.clone()),
            }
        }
    }
}
