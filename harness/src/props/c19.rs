//! C19 block pool never loses or duplicates a block (engines `seqx` + `baton`).
//!
//! Real `BlockPool<B>` (re-exported by a hook; `B` = a harness block type over fake, never
//! dereferenced addresses), 2 worker ordinals; `BlockPool::push` reads the worker ordinal from a
//! thread-local, which a hook sets.
//!
//! (i) **sequential, `seqx`**: every history of <= 6 operations over {push(worker 0), push(worker
//! 1), pop, flush_all, len, iterate_blocks}, plus long scripted histories that cross the 256-entry
//! queue capacity (push 255..600 blocks on one worker, flush, pop everything; overflow without
//! flush; two workers; pops between flushes).  Reference model: per-worker local lists (a local
//! list that holds 256 blocks is moved to the global pool by the next push of that worker) and the
//! set of blocks in the global pool.  After every operation: `len()` == blocks held,
//! `iterate_blocks` yields exactly the held blocks (as a multiset); `pop` returns a block of the
//! global pool that has not been popped before, and `None` only when the global pool is empty.
//!
//! (ii) **concurrent, `baton`**: all interleavings at the `count` / `cursor` atomics and the
//! rw-lock acquisitions (logical rw-locks with `spin::RwLock` semantics) with <= 2 (thorough 3)
//! preemptions of
//!   * `pushpop`: worker 0 pushing k0 in 1..3 blocks, worker 1 pushing k1 in 1..2, two poppers
//!     popping p in 1..2 times each, with g in 0..2 blocks flushed to the global pool beforehand;
//!   * `flushpop`: one thread (not a pusher) running `flush_all` while two poppers pop; nobody
//!     pushes (the protocol: flush runs at the end of a GC when no push is in flight);
//!   * `overflow`: worker 0's local queue pre-filled with 256 blocks, worker 0 pushes 1..2 more
//!     (the first one overflows: the full queue moves to the global pool) while two poppers pop.
//! Oracle at quiescence: every thread finished (no deadlock), no panic; popped blocks were pushed
//! and are pairwise distinct; `len()` == pushed - popped == number of blocks `iterate_blocks`
//! yields; after a final `flush_all`, popping until `None` returns exactly the remaining blocks.
//! `pop` may return `None` while blocks are only in thread-local queues or a push is in flight:
//! nothing is required of individual `pop` results beyond safety.

use crate::baton::{self, Arming, Config, End, ExecInfo, Scenario, Verdict};
use crate::common::{machinery_failure, Run, Tier};
use crate::seqx::{self, Subject};
use mmtk::util::linear_scan::Region;
use mmtk::util::verif::c19::{set_current_worker_ordinal, BlockPool};
use mmtk::util::verif::rt::Class;
use mmtk::util::Address;
use serde_json::{json, Value};
use std::collections::{BTreeMap, BTreeSet};
use std::sync::{Mutex, RwLock};

const BLOCK_BASE: usize = 0x7000_0000;
const LOG_BLOCK: usize = 15;

#[derive(Clone, Copy, PartialEq, PartialOrd, Debug)]
pub struct HBlock(Address);

impl Region for HBlock {
    const LOG_BYTES: usize = LOG_BLOCK;
    fn from_aligned_address(address: Address) -> Self {
        assert!(address.is_aligned_to(Self::BYTES));
        HBlock(address)
    }
    fn start(&self) -> Address {
        self.0
    }
}

fn block(id: usize) -> HBlock {
    HBlock(unsafe { Address::from_usize(BLOCK_BASE + (id << LOG_BLOCK)) })
}

/// Id of a block the pool returned; `Err` if it is not one of ours.
fn block_id(b: HBlock) -> Result<usize, String> {
    let a = b.0.as_usize();
    if a < BLOCK_BASE || (a - BLOCK_BASE) % (1 << LOG_BLOCK) != 0 || (a - BLOCK_BASE) >> LOG_BLOCK > 100_000 {
        return Err(format!("the pool returned {:#x}, which is not a block that was ever pushed", a));
    }
    Ok((a - BLOCK_BASE) >> LOG_BLOCK)
}

struct SyncPool(BlockPool<HBlock>);
// Safety: BlockPool is shared between GC workers and mutators inside mmtk-core's spaces in exactly
// this way (the spaces declare themselves Sync).
unsafe impl Sync for SyncPool {}
unsafe impl Send for SyncPool {}

fn capacity() -> usize {
    BlockPool::<HBlock>::VERIF_QUEUE_CAPACITY
}

// ---------------------------------------------------------------------------------------------
// (i) sequential histories

#[derive(Clone, Debug, PartialEq, Eq)]
pub enum Op {
    Push(usize),
    Pop,
    FlushAll,
    Len,
    Iterate,
}

pub struct SeqSubject {
    workers: usize,
    alphabet: Vec<Op>,
}

pub struct St {
    pool: BlockPool<HBlock>,
    local: Vec<Vec<usize>>,
    global: BTreeSet<usize>,
    next_id: usize,
    popped: BTreeSet<usize>,
    hist: Vec<u8>,
}

impl St {
    fn held(&self) -> Vec<usize> {
        let mut v: Vec<usize> = self.global.iter().copied().collect();
        for l in &self.local {
            v.extend(l.iter().copied());
        }
        v.sort();
        v
    }
}

impl Subject for SeqSubject {
    type Op = Op;
    type State = St;
    type Snap = ();
    fn name(&self) -> String {
        format!("blockpool[workers={}]", self.workers)
    }
    fn fresh(&self) -> St {
        St { pool: BlockPool::new(self.workers), local: vec![vec![]; self.workers], global: BTreeSet::new(), next_id: 0, popped: BTreeSet::new(), hist: vec![] }
    }
    fn enabled(&self, _st: &St) -> Vec<Op> {
        self.alphabet.clone()
    }
    fn apply(&self, st: &mut St, op: &Op) -> Result<bool, String> {
        let mut nontrivial = false;
        match op {
            Op::Push(w) => {
                st.hist.push(*w as u8);
                set_current_worker_ordinal(*w);
                let id = st.next_id;
                st.next_id += 1;
                st.pool.push(block(id));
                if st.local[*w].len() == capacity() {
                    // the full local queue moves to the global pool
                    let full = std::mem::take(&mut st.local[*w]);
                    st.global.extend(full);
                    nontrivial = true;
                }
                st.local[*w].push(id);
            }
            Op::Pop => {
                st.hist.push(10);
                match st.pool.pop() {
                    Some(b) => {
                        let id = block_id(b)?;
                        if st.popped.contains(&id) {
                            return Err(format!("pop returned block {} a second time", id));
                        }
                        if !st.global.remove(&id) {
                            return Err(format!("pop returned block {}, which is not in the global pool (never pushed, or still in a worker-local queue)", id));
                        }
                        st.popped.insert(id);
                        nontrivial = st.local.iter().any(|l| !l.is_empty());
                    }
                    None => {
                        if !st.global.is_empty() {
                            return Err(format!("pop returned None although {} flushed blocks are in the global pool", st.global.len()));
                        }
                    }
                }
            }
            Op::FlushAll => {
                st.hist.push(11);
                st.pool.flush_all();
                for w in 0..self.workers {
                    let l = std::mem::take(&mut st.local[w]);
                    nontrivial |= !l.is_empty() && !st.global.is_empty();
                    st.global.extend(l);
                }
            }
            Op::Len => {
                st.hist.push(12);
                let n = st.pool.len();
                if n != st.held().len() {
                    return Err(format!("len() = {}, {} blocks are held", n, st.held().len()));
                }
            }
            Op::Iterate => {
                st.hist.push(13);
                // checked in `check`
            }
        }
        Ok(nontrivial)
    }
    fn check(&self, st: &St) -> Result<(), String> {
        let held = st.held();
        let n = st.pool.len();
        if n != held.len() {
            return Err(format!("len() = {}, {} blocks are held (pushed {} - popped {})", n, held.len(), st.next_id, st.popped.len()));
        }
        let mut seen: Vec<usize> = vec![];
        let mut bad = None;
        st.pool.iterate_blocks(&mut |b| match block_id(b) {
            Ok(id) => seen.push(id),
            Err(e) => bad = Some(e),
        });
        if let Some(e) = bad {
            return Err(e);
        }
        seen.sort();
        if seen != held {
            return Err(format!("iterate_blocks yields {} blocks {:?}..., held are {} blocks {:?}...", seen.len(), &seen[..seen.len().min(8)], held.len(), &held[..held.len().min(8)]));
        }
        Ok(())
    }
    fn key(&self, st: &St) -> Vec<u8> {
        // block ids are fresh per push: histories are never merged
        st.hist.clone()
    }
    fn op_json(&self, op: &Op) -> Value {
        match op {
            Op::Push(w) => json!({"op": "push", "worker": w}),
            Op::Pop => json!({"op": "pop"}),
            Op::FlushAll => json!({"op": "flush_all"}),
            Op::Len => json!({"op": "len"}),
            Op::Iterate => json!({"op": "iterate"}),
        }
    }
    fn signature(&self, op: &Op, _msg: &str) -> String {
        match op {
            Op::Push(_) => "push".into(),
            Op::Pop => "pop".into(),
            Op::FlushAll => "flush_all".into(),
            Op::Len => "len".into(),
            Op::Iterate => "iterate".into(),
        }
    }
}

fn op_from_json(v: &Value) -> Op {
    match v["op"].as_str().unwrap_or("") {
        "push" => Op::Push(v["worker"].as_u64().unwrap_or(0) as usize),
        "pop" => Op::Pop,
        "flush_all" => Op::FlushAll,
        "len" => Op::Len,
        _ => Op::Iterate,
    }
}

/// Compact description of a scripted history: (op, repeat count).
fn expand(script: &[(Op, usize)]) -> Vec<Op> {
    let mut v = vec![];
    for (op, n) in script {
        for _ in 0..*n {
            v.push(op.clone());
        }
    }
    v
}

fn scripts() -> Vec<(String, Vec<(Op, usize)>)> {
    let mut v = vec![];
    let cap = capacity();
    for n in [cap - 1, cap, cap + 1, cap + 2, 2 * cap - 1, 2 * cap, 2 * cap + 1, 600] {
        v.push((format!("push {} on worker 0, flush, pop all", n), vec![(Op::Push(0), n), (Op::FlushAll, 1), (Op::Pop, n + 2)]));
        v.push((format!("push {} on worker 0, pop (only overflowed queues are visible), flush, pop all", n), vec![(Op::Push(0), n), (Op::Pop, cap + 2), (Op::FlushAll, 1), (Op::Pop, n + 2)]));
    }
    v.push(("two workers to 300 each, interleaved pops and flushes".into(), vec![(Op::Push(0), 200), (Op::Push(1), 200), (Op::FlushAll, 1), (Op::Pop, 50), (Op::Push(0), 100), (Op::Push(1), 100), (Op::Pop, 300), (Op::FlushAll, 1), (Op::Push(0), cap + 1), (Op::Pop, 700)]));
    v.push(("alternate push / flush around the capacity".into(), vec![(Op::Push(0), cap), (Op::FlushAll, 1), (Op::Push(0), cap), (Op::Push(0), 1), (Op::Pop, 3), (Op::FlushAll, 1), (Op::FlushAll, 1), (Op::Pop, 2 * cap + 2), (Op::Push(1), 1), (Op::Pop, 1), (Op::FlushAll, 1), (Op::Pop, 2)]));
    v
}

// ---------------------------------------------------------------------------------------------
// (ii) concurrent scenarios

#[derive(Clone, Debug, PartialEq, Eq)]
pub enum Kind {
    PushPop { k0: usize, k1: usize, pops: usize, preflushed: usize },
    FlushPop { local0: usize, local1: usize, preflushed: usize, pops: usize },
    Overflow { extra: usize, pops: usize },
}

#[derive(Clone, Debug)]
pub struct Params {
    pub kind: Kind,
    pub bound: Option<u32>,
}

fn params_json(p: &Params) -> Value {
    let k = match &p.kind {
        Kind::PushPop { k0, k1, pops, preflushed } => json!({"scenario": "pushpop", "k0": k0, "k1": k1, "pops": pops, "preflushed": preflushed}),
        Kind::FlushPop { local0, local1, preflushed, pops } => json!({"scenario": "flushpop", "local0": local0, "local1": local1, "preflushed": preflushed, "pops": pops}),
        Kind::Overflow { extra, pops } => json!({"scenario": "overflow", "extra": extra, "pops": pops}),
    };
    json!({"kind": k, "bound": p.bound})
}

fn params_from_json(v: &Value) -> Params {
    let k = &v["kind"];
    let u = |n: &str| k[n].as_u64().unwrap_or(0) as usize;
    let kind = match k["scenario"].as_str().unwrap_or("") {
        "pushpop" => Kind::PushPop { k0: u("k0"), k1: u("k1"), pops: u("pops"), preflushed: u("preflushed") },
        "flushpop" => Kind::FlushPop { local0: u("local0"), local1: u("local1"), preflushed: u("preflushed"), pops: u("pops") },
        "overflow" => Kind::Overflow { extra: u("extra"), pops: u("pops") },
        other => machinery_failure(&format!("C19 replay: unknown scenario {}", other)),
    };
    Params { kind, bound: v["bound"].as_u64().map(|b| b as u32) }
}

#[derive(Clone, Debug)]
enum Role {
    Pusher { worker: usize, ids: Vec<usize> },
    Popper { pops: usize },
    Flusher,
}

pub struct Sc {
    p: Params,
    roles: Vec<Role>,
    /// ids pushed (and possibly flushed) sequentially by `setup`
    pre: Vec<usize>,
    pool: RwLock<Option<SyncPool>>,
    /// per thread: what each pop returned (`None` = None, `Some(Err)` = a foreign address)
    popped: Vec<Mutex<Vec<Option<Result<usize, String>>>>>,
}

impl Sc {
    pub fn new(p: Params) -> Sc {
        let mut roles = vec![];
        let mut next = 0usize;
        let mut take = |n: usize| -> Vec<usize> {
            let v: Vec<usize> = (next..next + n).collect();
            next += n;
            v
        };
        let pre;
        match &p.kind {
            Kind::PushPop { k0, k1, pops, preflushed } => {
                pre = take(*preflushed);
                roles.push(Role::Pusher { worker: 0, ids: take(*k0) });
                roles.push(Role::Pusher { worker: 1, ids: take(*k1) });
                roles.push(Role::Popper { pops: *pops });
                roles.push(Role::Popper { pops: *pops });
            }
            Kind::FlushPop { local0, local1, preflushed, pops } => {
                pre = take(*preflushed + *local0 + *local1);
                roles.push(Role::Flusher);
                roles.push(Role::Popper { pops: *pops });
                roles.push(Role::Popper { pops: *pops });
            }
            Kind::Overflow { extra, pops } => {
                pre = take(capacity());
                roles.push(Role::Pusher { worker: 0, ids: take(*extra) });
                roles.push(Role::Popper { pops: *pops });
                roles.push(Role::Popper { pops: *pops });
            }
        }
        let n = roles.len();
        Sc { p, roles, pre, pool: RwLock::new(None), popped: (0..n).map(|_| Mutex::new(vec![])).collect() }
    }

    fn all_pushed(&self) -> BTreeSet<usize> {
        let mut s: BTreeSet<usize> = self.pre.iter().copied().collect();
        for r in &self.roles {
            if let Role::Pusher { ids, .. } = r {
                s.extend(ids.iter().copied());
            }
        }
        s
    }
}

impl Scenario for Sc {
    fn name(&self) -> String {
        format!("C19/{:?}", self.p.kind)
    }
    fn params(&self) -> Value {
        params_json(&self.p)
    }
    fn threads(&self) -> usize {
        self.roles.len()
    }
    fn setup(&self, arming: &mut Arming) {
        // the controller thread is not registered with the scheduler: everything here runs
        // sequentially and unobserved
        let pool = BlockPool::<HBlock>::new(2);
        match &self.p.kind {
            Kind::PushPop { preflushed, .. } => {
                set_current_worker_ordinal(0);
                for id in &self.pre[..*preflushed] {
                    pool.push(block(*id));
                }
                pool.flush_all();
            }
            Kind::FlushPop { local0, local1, preflushed, .. } => {
                set_current_worker_ordinal(0);
                for id in &self.pre[..*preflushed] {
                    pool.push(block(*id));
                }
                pool.flush_all();
                for id in &self.pre[*preflushed..*preflushed + *local0] {
                    pool.push(block(*id));
                }
                set_current_worker_ordinal(1);
                for id in &self.pre[*preflushed + *local0..*preflushed + *local0 + *local1] {
                    pool.push(block(*id));
                }
            }
            Kind::Overflow { .. } => {
                set_current_worker_ordinal(0);
                for id in &self.pre {
                    pool.push(block(*id));
                }
            }
        }
        *self.pool.write().unwrap_or_else(|p| p.into_inner()) = Some(SyncPool(pool));
        for m in &self.popped {
            m.lock().unwrap_or_else(|p| p.into_inner()).clear();
        }
        arming.class(Class::Pool);
    }
    fn body(&self, tid: usize) {
        let guard = self.pool.read().unwrap_or_else(|p| p.into_inner());
        let pool = &guard.as_ref().unwrap().0;
        match &self.roles[tid] {
            Role::Pusher { worker, ids } => {
                set_current_worker_ordinal(*worker);
                for id in ids {
                    pool.push(block(*id));
                }
            }
            Role::Popper { pops } => {
                for _ in 0..*pops {
                    let r = pool.pop().map(block_id);
                    self.popped[tid].lock().unwrap_or_else(|p| p.into_inner()).push(r);
                }
            }
            Role::Flusher => pool.flush_all(),
        }
    }
    fn check(&self, info: &ExecInfo) -> Verdict {
        let name = match self.p.kind {
            Kind::PushPop { .. } => "pushpop",
            Kind::FlushPop { .. } => "flushpop",
            Kind::Overflow { .. } => "overflow",
        };
        let sig = |clause: &str| format!("{}:{}", clause, name);
        let pushed = self.all_pushed();
        let mut popped_all: Vec<usize> = vec![];
        let mut per_thread: BTreeMap<usize, Vec<Option<usize>>> = BTreeMap::new();
        let mut foreign = None;
        for (t, m) in self.popped.iter().enumerate() {
            for r in m.lock().unwrap_or_else(|p| p.into_inner()).iter() {
                match r {
                    None => per_thread.entry(t).or_default().push(None),
                    Some(Ok(id)) => {
                        per_thread.entry(t).or_default().push(Some(*id));
                        popped_all.push(*id);
                    }
                    Some(Err(e)) => foreign = Some(e.clone()),
                }
            }
        }
        // the contended atomics: any thread interleaved inside a pool operation of another
        let nontrivial = info.preemptions > 0 && popped_all.len() > 0;
        // which block each pop returned (-1 = None)
        let outcome = format!("{}:{:?}", info.end.name(), per_thread.values().map(|v| v.iter().map(|x| x.map(|i| i as i64).unwrap_or(-1)).collect::<Vec<_>>()).collect::<Vec<_>>());
        let mut violation = None;
        if info.end != End::Complete {
            let clause = if matches!(info.end, End::Deadlock(_)) { "deadlock" } else { "no-termination" };
            violation = Some((sig(clause), format!("execution ended with {:?}", info.end)));
        } else if let Some((t, m)) = info.panics.iter().enumerate().find_map(|(t, p)| p.as_ref().map(|m| (t, m.clone()))) {
            violation = Some((sig("panic"), format!("thread {} panicked: {}", t, m)));
        } else if let Some(e) = foreign {
            violation = Some((sig("popped-not-pushed"), e));
        } else if let Some(id) = popped_all.iter().find(|id| !pushed.contains(id)) {
            violation = Some((sig("popped-not-pushed"), format!("block {} was popped but never pushed", id)));
        } else {
            let mut sorted = popped_all.clone();
            sorted.sort();
            if let Some(w) = sorted.windows(2).find(|w| w[0] == w[1]) {
                violation = Some((sig("popped-twice"), format!("block {} was popped twice (pops per thread: {:?})", w[0], per_thread)));
            }
        }
        if violation.is_none() {
            // quiescent state: the controller (unregistered) inspects the pool sequentially
            let guard = self.pool.read().unwrap_or_else(|p| p.into_inner());
            let pool = &guard.as_ref().unwrap().0;
            let held: BTreeSet<usize> = pushed.iter().copied().filter(|id| !popped_all.contains(id)).collect();
            let len = pool.len();
            let mut seen: Vec<usize> = vec![];
            pool.iterate_blocks(&mut |b| seen.push(block_id(b).unwrap_or(usize::MAX)));
            seen.sort();
            let held_v: Vec<usize> = held.iter().copied().collect();
            if len != held.len() {
                violation = Some((sig("len"), format!("at quiescence len() = {} but {} blocks are held (pushed {} - popped {})", len, held.len(), pushed.len(), popped_all.len())));
            } else if seen != held_v {
                violation = Some((sig("iterate"), format!("at quiescence iterate_blocks yields {} blocks, {} are held; difference: {:?}", seen.len(), held.len(), seen.iter().filter(|x| !held.contains(x)).chain(held_v.iter().filter(|x| !seen.contains(x))).take(6).collect::<Vec<_>>())));
            } else {
                pool.flush_all();
                let mut rest: Vec<usize> = vec![];
                let mut err = None;
                for _ in 0..held.len() + 2 {
                    match pool.pop() {
                        Some(b) => match block_id(b) {
                            Ok(id) => rest.push(id),
                            Err(e) => err = Some(e),
                        },
                        None => break,
                    }
                }
                rest.sort();
                if let Some(e) = err {
                    violation = Some((sig("popped-not-pushed"), e));
                } else if rest != held_v {
                    violation = Some((sig("not-poppable-after-flush"), format!("after flush_all, popping until None returned {} blocks but {} were held (missing {:?}, extra {:?})", rest.len(), held.len(), held_v.iter().filter(|x| !rest.contains(x)).take(6).collect::<Vec<_>>(), rest.iter().filter(|x| !held.contains(x)).take(6).collect::<Vec<_>>())));
                } else if pool.len() != 0 {
                    violation = Some((sig("len"), format!("after everything was popped len() = {}", pool.len())));
                }
            }
        }
        Verdict { outcome, violation, nontrivial }
    }
    fn min_outcomes(&self) -> usize {
        // without a flushed block and without an overflow every pop returns None
        match self.p.kind {
            Kind::PushPop { preflushed: 0, .. } => 1,
            _ => 2,
        }
    }
}

fn configs(tier: Tier) -> Vec<Params> {
    let thorough = tier == Tier::Thorough;
    let b = Some(if thorough { 3 } else { 2 });
    let mut v = vec![];
    if thorough {
        for k0 in 1..=3 {
            for k1 in 1..=2 {
                for pops in 1..=2 {
                    for preflushed in 0..=2 {
                        let big = k0 + k1 + 2 * pops >= 7;
                        v.push(Params { kind: Kind::PushPop { k0, k1, pops, preflushed }, bound: if big { Some(2) } else { b } });
                    }
                }
            }
        }
    } else {
        for (k0, k1, pops, preflushed) in [(1, 1, 1, 1), (2, 1, 1, 2), (1, 1, 2, 2), (3, 2, 1, 1)] {
            v.push(Params { kind: Kind::PushPop { k0, k1, pops, preflushed }, bound: b });
        }
    }
    let fp: Vec<(usize, usize, usize, usize)> = if thorough { vec![(1, 1, 0, 1), (2, 1, 1, 1), (1, 0, 1, 2), (2, 2, 2, 2), (1, 1, 1, 2)] } else { vec![(1, 1, 0, 1), (2, 1, 1, 2)] };
    for (local0, local1, preflushed, pops) in fp {
        v.push(Params { kind: Kind::FlushPop { local0, local1, preflushed, pops }, bound: b });
    }
    let ov: Vec<(usize, usize)> = if thorough { vec![(1, 1), (1, 2), (2, 1), (2, 2)] } else { vec![(1, 1), (2, 2)] };
    for (extra, pops) in ov {
        v.push(Params { kind: Kind::Overflow { extra, pops }, bound: b });
    }
    v
}

pub fn run(run: &mut Run) {
    // (i) sequential
    let subj = SeqSubject { workers: 2, alphabet: vec![Op::Push(0), Op::Push(1), Op::Pop, Op::FlushAll, Op::Len, Op::Iterate] };
    let depth = 6;
    let st = seqx::bfs(&subj, run, json!({"part": "sequential", "workers": 2, "depth": depth}), depth, 2_000_000);
    run.set("sequential_histories_depth", depth as u64);
    run.set("sequential_histories", st.states);
    let closed_seq = st.transitions == (1..=depth as u32).map(|d| 6u64.pow(d)).sum::<u64>();
    seqx::add_stats(run, &st);
    // every history up to the depth was run (histories are never merged, so the search cannot close)
    run.set("exhaustive", closed_seq);
    let mut script_ops = 0u64;
    for (name, script) in scripts() {
        let ops = expand(&script);
        script_ops += ops.len() as u64;
        match seqx::replay(&subj, &ops) {
            Ok(st) => drop(st),
            Err((i, m)) => {
                run.violation(format!("blockpool:capacity:{}", subj.signature(&ops[i], &m)), format!("scripted history '{}', step {} ({:?}): {}", name, i, ops[i], m), json!({"part": "script", "name": name, "history": ops.iter().map(|o| subj.op_json(o)).collect::<Vec<_>>()}));
            }
        }
    }
    run.add("transitions", script_ops);
    run.add("evaluations", script_ops);
    run.add("traces_validated_against_impl", script_ops);
    run.set("capacity_crossing_scripts", scripts().len() as u64);
    run.set("capacity_crossing_script_operations", script_ops);
    run.sample(json!({"part": "script", "name": scripts()[2].0, "operations": expand(&scripts()[2].1).len()}));
    // (ii) concurrent
    let cfgs = configs(run.tier);
    let jobs = run.jobs.min(8);
    let stats = baton::explore_many(run, cfgs.len(), jobs, |i, _slot| {
        let p = cfgs[i].clone();
        let cfg = Config { bound: p.bound, max_executions: 3_000_000, ..Config::default() };
        (Sc::new(p), cfg)
    });
    let minb = stats.iter().filter(|s| s.violations == 0).map(|s| if s.unbounded_complete { 99 } else { s.completed_bound.unwrap_or(0) }).min().unwrap_or(0);
    run.set("concurrent_scenarios", cfgs.len() as u64);
    run.set("completed_preemption_bound_concurrent", minb as u64);
    run.set("concurrent_executions", stats.iter().map(|s| s.executions).sum::<u64>());
    run.set("rule", "sequential: every history of <= 6 operations over {push(w0), push(w1), pop, flush_all, len, iterate_blocks} and scripted histories crossing the 256-entry queue capacity, against a model of worker-local lists + global pool (len and iterate_blocks checked after every operation; pop returns an unpopped block of the global pool, None only if the global pool is empty); concurrent: every interleaving with <= the stated preemption bound at the count/cursor atomics and rw-lock acquisitions of push || pop, flush_all || pop, overflowing push || pop (popped subset of pushed, no duplicates, len == held at quiescence, everything poppable after a final flush_all). states = sequential histories + concurrent executions; non-trivial = sequential transitions that moved / popped blocks while both local and global queues were non-empty or overflowed a queue, concurrent executions with at least one preemption in which a block was popped");
    run.assume("concurrent part: sequentially consistent interleavings at the instrumented atomics and lock acquisitions only (engine baton); flush_all never runs concurrently with a push; a worker-local queue has one pusher; iterate_blocks only at quiescence");
    run.assume("pop may return None while blocks are only in worker-local queues or a push is in flight: only safety is required of individual pops in the concurrent part");
}

pub fn replay(case: &Value, run: &mut Run) {
    if case["engine"].as_str() == Some("baton") {
        let p = params_from_json(&case["params"]);
        let sc = Sc::new(p);
        let (info, v) = baton::replay_case(&sc, case, 20_000, 64);
        eprintln!("trace: {}", info.pretty());
        eprintln!("outcome: {}", v.outcome);
        if let Some((sig, msg)) = v.violation {
            run.violation(sig, msg, case.clone());
        }
        return;
    }
    let subj = SeqSubject { workers: 2, alphabet: vec![] };
    let hist: Vec<Op> = case["history"].as_array().map(|a| a.iter().map(op_from_json).collect()).unwrap_or_default();
    if let Err((i, m)) = seqx::replay(&subj, &hist) {
        run.violation("replay", format!("step {}: {}", i, m), case.clone());
    }
}
