//! C23 in-header metadata: for every header spec (bit offsets -64..64, widths 1..7 inside one
//! byte and aligned 8/16/32/64, optional mask for byte-or-wider fields) the spec's field and its
//! neighbouring fields in the same byte / adjacent words are driven to closure through the real
//! `HeaderMetadataSpec` accessors against a shadow image of the header.
//!
//! Reading of the property for masked accesses: the field is the spec's bits; a masked load
//! returns field & mask; a masked store writes (old & !mask) | (val & mask); a masked
//! compare-exchange compares and replaces the masked bits only (its arguments lie inside the
//! mask) and returns the previous value of the whole field.

use crate::common::Run;
use crate::metaops::{op_from_json, Access, Fetch, FieldLoc, MetaSubject};
use crate::seqx;
use mmtk::util::metadata::header_metadata::HeaderMetadataSpec;
use mmtk::util::Address;
use serde_json::{json, Value};
use std::sync::atomic::Ordering::SeqCst;

#[derive(Clone, Debug)]
pub struct Cfg {
    pub bit_offset: isize,
    pub bits: usize,
    pub background: u8,
    pub mask: Option<u64>,
}

#[repr(align(64))]
struct Buf([u8; 256]);

pub struct HeaderAccess {
    cfg: Cfg,
    specs: Vec<HeaderMetadataSpec>,
    buf: Box<Buf>,
}

impl HeaderAccess {
    pub fn new(cfg: Cfg) -> Self {
        let o = cfg.bit_offset;
        let w = cfg.bits as isize;
        let mut specs = vec![HeaderMetadataSpec { bit_offset: o, num_of_bits: cfg.bits }];
        if w < 8 {
            let byte_start = o.div_euclid(8) * 8;
            let s = o - byte_start;
            if s > 0 {
                specs.push(HeaderMetadataSpec { bit_offset: byte_start, num_of_bits: s as usize });
            }
            if s + w < 8 {
                specs.push(HeaderMetadataSpec { bit_offset: o + w, num_of_bits: (8 - s - w) as usize });
            }
        } else {
            specs.push(HeaderMetadataSpec { bit_offset: o + w, num_of_bits: cfg.bits });
            specs.push(HeaderMetadataSpec { bit_offset: o - w, num_of_bits: cfg.bits });
        }
        HeaderAccess { cfg, specs, buf: Box::new(Buf([0; 256])) }
    }
    fn header(&self) -> Address {
        Address::from_ptr(self.buf.0.as_ptr()) + 128usize
    }
    fn m<T: TryFrom<u64>>(&self, f: usize, masked: bool) -> Option<T>
    where
        <T as TryFrom<u64>>::Error: std::fmt::Debug,
    {
        if masked {
            Some(T::try_from(self.mask(f).unwrap()).unwrap())
        } else {
            None
        }
    }
}

macro_rules! by_bits {
    ($bits:expr, $t:ident, $body:expr) => {
        match $bits {
            0..=8 => {
                type $t = u8;
                $body
            }
            16 => {
                type $t = u16;
                $body
            }
            32 => {
                type $t = u32;
                $body
            }
            _ => {
                type $t = u64;
                $body
            }
        }
    };
}

impl Access for HeaderAccess {
    fn describe(&self) -> Value {
        json!({"bit_offset": self.cfg.bit_offset, "bits": self.cfg.bits, "background": self.cfg.background, "mask": self.cfg.mask})
    }
    fn nfields(&self) -> usize {
        self.specs.len()
    }
    fn loc(&self, f: usize) -> FieldLoc {
        // independent of HeaderMetadataSpec's own helpers: floor division / non-negative remainder
        let s = &self.specs[f];
        let byte = s.bit_offset.div_euclid(8);
        let shift = s.bit_offset.rem_euclid(8) as u32;
        FieldLoc { byte: self.header() + byte, shift, bits: s.num_of_bits as u32 }
    }
    fn mask(&self, f: usize) -> Option<u64> {
        if f == 0 {
            self.cfg.mask
        } else {
            None
        }
    }
    fn windows(&self) -> Vec<(Address, usize)> {
        vec![(self.header() - 64usize, 128)]
    }
    fn background(&self) -> u8 {
        self.cfg.background
    }
    fn load(&self, f: usize, atomic: bool, masked: bool) -> u64 {
        let s = &self.specs[f];
        let h = self.header();
        by_bits!(s.num_of_bits, T, {
            let m: Option<T> = self.m::<T>(f, masked);
            if atomic {
                s.load_atomic::<T>(h, m, SeqCst) as u64
            } else {
                unsafe { s.load::<T>(h, m) as u64 }
            }
        })
    }
    fn store(&self, f: usize, v: u64, atomic: bool, masked: bool) {
        let s = &self.specs[f];
        let h = self.header();
        by_bits!(s.num_of_bits, T, {
            let m: Option<T> = self.m::<T>(f, masked);
            if atomic {
                s.store_atomic::<T>(h, v as T, m, SeqCst)
            } else {
                unsafe { s.store::<T>(h, v as T, m) }
            }
        })
    }
    fn cas(&self, f: usize, old: u64, new: u64, masked: bool) -> Result<u64, u64> {
        let s = &self.specs[f];
        let h = self.header();
        by_bits!(s.num_of_bits, T, {
            let m: Option<T> = self.m::<T>(f, masked);
            s.compare_exchange::<T>(h, old as T, new as T, m, SeqCst, SeqCst).map(|x| x as u64).map_err(|x| x as u64)
        })
    }
    fn fetch(&self, f: usize, kind: Fetch, v: u64) -> u64 {
        let s = &self.specs[f];
        let h = self.header();
        by_bits!(s.num_of_bits, T, {
            (match kind {
                Fetch::Add => s.fetch_add::<T>(h, v as T, SeqCst),
                Fetch::Sub => s.fetch_sub::<T>(h, v as T, SeqCst),
                Fetch::And => s.fetch_and::<T>(h, v as T, SeqCst),
                Fetch::Or => s.fetch_or::<T>(h, v as T, SeqCst),
            }) as u64
        })
    }
    fn fetch_update(&self, f: usize, new: Option<u64>) -> Result<u64, u64> {
        let s = &self.specs[f];
        let h = self.header();
        by_bits!(s.num_of_bits, T, { s.fetch_update::<T, _>(h, SeqCst, SeqCst, |_x: T| new.map(|n| n as T)).map(|x| x as u64).map_err(|x| x as u64) })
    }
}

fn cfg_json(c: &Cfg) -> Value {
    json!({"bit_offset": c.bit_offset, "bits": c.bits, "background": c.background, "mask": c.mask})
}

fn cfg_from_json(v: &Value) -> Cfg {
    Cfg { bit_offset: v["bit_offset"].as_i64().unwrap() as isize, bits: v["bits"].as_u64().unwrap() as usize, background: v["background"].as_u64().unwrap() as u8, mask: v["mask"].as_u64() }
}

pub fn configs() -> Vec<Cfg> {
    let mut v = vec![];
    for background in [0x00u8, 0xff, 0xa5] {
        for o in -64isize..64 {
            for w in 1..=7isize {
                if o.rem_euclid(8) + w <= 8 {
                    v.push(Cfg { bit_offset: o, bits: w as usize, background, mask: None });
                }
            }
            for w in [8usize, 16, 32, 64] {
                if o.rem_euclid(w as isize) == 0 {
                    let max = crate::metaops::max_of(w as u32);
                    v.push(Cfg { bit_offset: o, bits: w, background, mask: None });
                    // pointer-like mask (the forwarding-pointer mask shape), a nibble mask and a
                    // single-bit mask
                    for m in [0x00ff_ffff_ffff_fff8u64 & max, 0x0f0f_0f0f_0f0f_0f0f & max, 0x10] {
                        if m != 0 && m != max {
                            v.push(Cfg { bit_offset: o, bits: w, background, mask: Some(m) });
                        }
                    }
                }
            }
        }
    }
    v
}

pub fn run(run: &mut Run) {
    let cfgs = configs();
    let stats = seqx::bfs_many(run, &cfgs, |c| MetaSubject::new(HeaderAccess::new(c.clone()), "header"), cfg_json, 1000, 1_000_000);
    let mut shown = 0;
    for (c, st) in cfgs.iter().zip(stats.iter()) {
        if (c.bits == 3 && c.bit_offset == -5 || c.mask.is_some() && c.bits == 64 && c.bit_offset == 0) && c.background == 0xa5 && shown < 3 {
            shown += 1;
            run.sample(json!({"config": cfg_json(c), "states": st.states, "transitions": st.transitions, "closed": st.closed,
                "example_history": [{"op":"store","f":1,"v":1,"atomic":true,"masked":false},{"op":"cas","f":0,"old":0,"new":1,"masked":false}]}));
        }
    }
    run.set("configurations", cfgs.len() as u64);
    run.set("rule", "per header spec (bit_offset -64..63; widths 1..7 not crossing a byte, 8/16/32/64 aligned; masks {none, pointer-like, nibbles, single bit} for >= 8 bits; backgrounds 00/ff/a5): BFS to closure over every accessor on the spec's field and the neighbouring fields (rest of the byte, or the adjacent words), value domain {0,1,max,0xA5..} (masked: {0,max,mask,!mask}); after every operation return value == previous value of that field and the 128 header bytes == shadow image; non-trivial = neighbouring bits non-zero");
    run.assume("values passed are within the field width; arguments of a masked compare-exchange lie inside the mask");
    run.assume("masked accesses: the field is the spec's bits; bits outside the mask are part of the field and may be returned (DESIGN.md C23)");
}

pub fn replay(case: &Value, run: &mut Run) {
    let c = cfg_from_json(&case["cfg"]);
    let s = MetaSubject::new(HeaderAccess::new(c), "header");
    let hist: Vec<_> = case["history"].as_array().unwrap().iter().map(op_from_json).collect();
    if let Err((i, m)) = seqx::replay(&s, &hist) {
        run.violation("replay", format!("step {}: {}", i, m), case.clone());
    }
}
