//! C29 Map32 region map: BFS to closure over allocate / free-one-region / free-all histories of
//! several discontiguous spaces sharing one small discontiguous chunk range, on a *private* real
//! `Map32`, against a chunk-ownership model.
//!
//! Environment.  `Map32` is the `VMMap` of 32-bit style layouts (on 64-bit: layouts with
//! `force_use_contiguous_spaces == false`, e.g. compressed pointers).  Its free path clears the
//! global `SFT_MAP`, so each exploring process first sets such a layout and creates one NoGC
//! `MMTK` instance (that is the only public way to initialise `SFT_MAP`, and it picks the sparse
//! chunk SFT map that goes with `Map32`).  The instance is never used afterwards (no mutator is
//! bound, nothing is allocated), and the private maps manage chunk ranges outside its heap range.
//! Because the layout and SFT_MAP are process globals, the whole exploration runs in one child
//! process (configurations on threads, each with its own private maps).
//!
//! Two drivers.  `via_pr = true`: each space owns a real `CommonPageResource` over the private map
//! and the operations are its `grow_discontiguous_space` / `release_discontiguous_chunks` /
//! `release_all_chunks` (the production callers, which maintain the per-space list head).
//! `via_pr = false`: the harness calls the `VMMap` methods directly and keeps the head exactly as
//! `CommonPageResource` does; this additionally offers `free_all_chunks(any_chunk)` from every
//! region of the list, not only the head.
//!
//! Executions.  A state is rebuilt by replaying its history from the initial state of a private
//! map.  Building a `Map32` (five tables of 2^25 entries each, like the global one) costs a few
//! milliseconds of page faults, so the map of a finished execution is reused when - and only when -
//! freeing every space's regions brought it back to a state whose complete observation (oracle +
//! canonical key: descriptors, raw links, heads, available count, and a region-map free list
//! consisting of the single run that covers the range) equals the one recorded from the first,
//! freshly built map.  Any execution that ended in a mismatch or a panic, or whose reset does not
//! reproduce that observation, discards its map and the next execution builds a new one.
//! `VERIF_C29_REBUILD=1` disables the reuse (every execution builds a new map); both modes give
//! identical state and transition counts.

use crate::common::{self, machinery_failure, Run};
use crate::seqx::{self, Subject};
use mmtk::util::heap::vm_layout::{vm_layout, VMLayout, BYTES_IN_CHUNK, LOG_BYTES_IN_CHUNK};
use mmtk::util::options::PlanSelector;
use mmtk::util::verif::c29::{self as hook, CommonPageResource, Map32, SpaceDescriptor, VMMap};
use mmtk::util::Address;
use serde_json::{json, Value};
use std::cell::RefCell;
use std::collections::{BTreeMap, BTreeSet};

#[derive(Clone, Debug)]
pub struct Cfg {
    /// chunk index of the first chunk of the discontiguous range
    pub first: usize,
    /// number of chunks in the discontiguous range
    pub chunks: usize,
    /// number of discontiguous spaces sharing the range
    pub spaces: usize,
    /// allocation sizes offered: 1..=max_n chunks
    pub max_n: usize,
    /// drive the real CommonPageResource (true) or the VMMap methods directly (false)
    pub via_pr: bool,
}

#[derive(Clone, Debug, PartialEq, Eq)]
pub enum Op {
    /// space s asks for n contiguous chunks
    Alloc { s: usize, n: usize },
    /// space s frees its region starting at chunk `c` (relative to the range start)
    Free { s: usize, c: usize },
    /// space s frees all its regions, passing its list head (possibly none)
    FreeAll { s: usize },
    /// direct driver only: `free_all_chunks(any_chunk)` with the region at `c`, which is not the head
    FreeAllFrom { s: usize, c: usize },
}

#[derive(Clone, Debug, Default)]
pub struct Model {
    /// region start (relative chunk) -> (length in chunks, owning space)
    pub regions: BTreeMap<usize, (usize, usize)>,
    /// per chunk: the space that owned it last (statistics only, not part of the state)
    pub last_owner: Vec<Option<usize>>,
}

impl Model {
    fn owner(&self, chunks: usize) -> Vec<Option<usize>> {
        let mut o = vec![None; chunks];
        for (&c, &(len, s)) in &self.regions {
            for slot in o.iter_mut().skip(c).take(len) {
                *slot = Some(s);
            }
        }
        o
    }
    /// maximal runs of unallocated chunks: (start, len)
    fn free_runs(&self, chunks: usize) -> Vec<(usize, usize)> {
        let o = self.owner(chunks);
        let mut v = vec![];
        let mut i = 0;
        while i < chunks {
            if o[i].is_none() {
                let st = i;
                while i < chunks && o[i].is_none() {
                    i += 1;
                }
                v.push((st, i - st));
            } else {
                i += 1;
            }
        }
        v
    }
    fn regions_of(&self, s: usize) -> BTreeSet<usize> {
        self.regions.iter().filter(|(_, r)| r.1 == s).map(|(c, _)| *c).collect()
    }
}

pub struct St {
    // field order = drop order: the page resources hold a reference into `map`
    prs: Vec<CommonPageResource>,
    heads: Vec<Address>,
    map: Box<Map32>,
    discontig_start_reported: Option<Address>,
    pub model: Model,
    hist: Vec<Op>,
    /// set while an operation is in flight and when an oracle failed: such a map is never reused
    tainted: std::cell::Cell<bool>,
}

pub struct MapSubject {
    pub cfg: Cfg,
    descs: Vec<SpaceDescriptor>,
    guard: SpaceDescriptor,
    max_chunks: usize,
    counting: std::cell::Cell<bool>,
    pub counters: RefCell<BTreeMap<String, u64>>,
    /// the map of the last cleanly finished execution, reset to the initial state
    pool: RefCell<Option<St>>,
    /// observation (canonical key) of a freshly built map
    pristine: RefCell<Option<Vec<u8>>>,
    reuse: bool,
    /// exploration was cut short after many violating executions
    pub cut: std::cell::Cell<bool>,
}

const MAX_MAPS_BUILT: u64 = 64;

fn chunk_addr(idx: usize) -> Address {
    unsafe { Address::from_usize(idx << LOG_BYTES_IN_CHUNK) }
}

/// Process-wide environment: compressed-pointer style layout + one NoGC MMTK instance (see the
/// module comment).  Must run before anything reads the VM layout.
pub fn env_init() {
    static ONCE: std::sync::OnceLock<()> = std::sync::OnceLock::new();
    ONCE.get_or_init(|| {
        crate::vm::init_state();
        let mut builder = mmtk::MMTKBuilder::new_no_env_vars();
        builder.set_vm_layout(VMLayout {
            log_address_space: 35,
            heap_start: unsafe { Address::from_usize(0x4000_0000) },
            heap_end: unsafe { Address::from_usize(32usize << 30) },
            log_space_extent: 31,
            force_use_contiguous_spaces: false,
        });
        if !builder.options.plan.set(PlanSelector::NoGC) {
            machinery_failure("cannot select NoGC");
        }
        let m = mmtk::memory_manager::mmtk_init::<crate::vm::VerifVM>(&builder);
        let m: &'static mmtk::MMTK<crate::vm::VerifVM> = Box::leak(m);
        let _ = crate::vm::MMTK_INSTANCE.set(m);
        if vm_layout().force_use_contiguous_spaces {
            machinery_failure("compressed-pointer layout not in effect");
        }
    });
}

impl MapSubject {
    /// `env_init` must have been called.
    pub fn new(cfg: Cfg) -> Self {
        let max_chunks = vm_layout().max_chunks();
        let heap_first = vm_layout().heap_start.chunk_index();
        let heap_last = vm_layout().heap_end.chunk_index();
        let last = cfg.first + cfg.chunks - 1;
        // preconditions of the configuration (not of the property): chunk 0 is the list
        // terminator, finalize needs at least one trailing chunk, and the range (with its guard
        // chunks) stays outside the heap range of the NoGC instance
        if cfg.first < 1 || last + 2 > max_chunks || !(last + 1 < heap_first || cfg.first > heap_last + 1) || cfg.spaces < 1 || cfg.spaces > 4 || cfg.chunks > 32 {
            machinery_failure(&format!("bad C29 configuration {:?}", cfg));
        }
        let descs = (0..cfg.spaces).map(|_| SpaceDescriptor::create_descriptor()).collect();
        let guard = SpaceDescriptor::create_descriptor();
        MapSubject {
            cfg,
            descs,
            guard,
            max_chunks,
            counting: std::cell::Cell::new(true),
            counters: RefCell::new(BTreeMap::new()),
            pool: RefCell::new(None),
            pristine: RefCell::new(None),
            reuse: std::env::var("VERIF_C29_REBUILD").is_err(),
            cut: std::cell::Cell::new(false),
        }
    }
    fn count(&self, k: &str) {
        if self.counting.get() {
            *self.counters.borrow_mut().entry(k.to_string()).or_insert(0) += 1;
        }
    }
    fn count_always(&self, k: &str) {
        *self.counters.borrow_mut().entry(k.to_string()).or_insert(0) += 1;
    }
    fn idx(&self, c: usize) -> usize {
        self.cfg.first + c
    }
    fn addr(&self, c: usize) -> Address {
        chunk_addr(self.idx(c))
    }
    /// relative chunk of a chunk-aligned address inside the range
    fn rel(&self, a: Address) -> Option<usize> {
        if a.as_usize() & (BYTES_IN_CHUNK - 1) != 0 {
            return None;
        }
        let i = a.as_usize() >> LOG_BYTES_IN_CHUNK;
        if i >= self.cfg.first && i < self.cfg.first + self.cfg.chunks {
            Some(i - self.cfg.first)
        } else {
            None
        }
    }
    fn has_low_guard(&self) -> bool {
        self.cfg.first >= 2
    }
    fn head(&self, st: &St, s: usize) -> Address {
        if self.cfg.via_pr {
            st.prs[s].get_head_discontiguous_region()
        } else {
            st.heads[s]
        }
    }
    /// Walk the real list of space s through `get_next_contiguous_region` (bounded).
    fn walk(&self, st: &St, s: usize) -> Vec<Address> {
        let mut v = vec![];
        let mut cur = self.head(st, s);
        while !cur.is_zero() && v.len() <= self.cfg.chunks + 1 {
            v.push(cur);
            if self.rel(cur).is_none() {
                break; // never index the map with an address outside the range
            }
            cur = st.map.get_next_contiguous_region(cur);
        }
        v
    }
    /// Free list of the private region map in link order: (unit, size), bounded walk.  Only used
    /// for the canonical key (it decides which free run the next allocation returns).
    fn free_list_order(&self, st: &St) -> Vec<(i32, i32)> {
        const LOW30: i32 = (1 << 30) - 1;
        const MULTI: i32 = 1 << 31;
        let hi = |u: i32| hook::region_map_entry(&st.map, ((u + 1) << 1) + 1);
        let ptr = |v: i32| -> i32 {
            let v = v & LOW30;
            if v >= self.max_chunks as i32 + 1 {
                -1
            } else {
                v
            }
        };
        let mut out = vec![];
        let mut u = ptr(hi(-1));
        while u >= 0 && (u as usize) < self.max_chunks && out.len() <= self.cfg.chunks + 1 {
            let h = hi(u);
            let size = if h & MULTI != 0 { hi(u + 1) & LOW30 } else { 1 };
            out.push((u, size));
            u = ptr(h);
        }
        out
    }
    fn position(&self, st: &St, s: usize, c: usize) -> &'static str {
        let w = self.walk(st, s);
        let a = self.addr(c);
        let n = w.len();
        match w.iter().position(|x| *x == a) {
            Some(0) if n == 1 => "only",
            Some(0) => "head",
            Some(i) if i + 1 == n => "tail",
            Some(_) => "middle",
            None => "unlinked",
        }
    }
    /// Build a private map in its initial state: new, neighbours inserted, finalized.
    fn build(&self) -> St {
        self.count_always("maps_built");
        let c = &self.cfg;
        let map = Box::new(Map32::new());
        let last = c.first + c.chunks - 1;
        // neighbours of the discontiguous range belong to contiguous spaces, registered with
        // `insert` before the map is finalized (as Space::new does)
        if self.has_low_guard() {
            map.insert(chunk_addr(c.first - 1), BYTES_IN_CHUNK, self.guard);
        }
        map.insert(chunk_addr(last + 1), BYTES_IN_CHUNK, self.guard);
        let mut reported = None;
        // `to` is the address of the last byte of the range (HeapMeta::get_discontig_end)
        map.finalize_static_space_map(chunk_addr(c.first), chunk_addr(last + 1) - 1usize, &mut |a| reported = Some(a));
        let prs = if c.via_pr {
            // The page resources want a &'static map; they are dropped before the box (field order).
            let m: &'static Map32 = unsafe { &*(map.as_ref() as *const Map32) };
            (0..c.spaces).map(|_| CommonPageResource::new(false, true, m)).collect()
        } else {
            vec![]
        };
        St {
            prs,
            heads: vec![Address::ZERO; c.spaces],
            map,
            discontig_start_reported: reported,
            model: Model { regions: BTreeMap::new(), last_owner: vec![None; c.chunks] },
            hist: vec![],
            tainted: std::cell::Cell::new(false),
        }
    }

    /// The oracle: every clause of the property, read from the real map, against the model.
    fn check_inner(&self, st: &St) -> Result<(), String> {
        let c = &self.cfg;
        let map: &Map32 = &st.map;
        if st.discontig_start_reported != Some(chunk_addr(c.first)) || !map.is_finalized() {
            return Err(format!("finalize_static_space_map reported discontiguous start {:?}, finalized {}", st.discontig_start_reported, map.is_finalized()));
        }
        let owner = st.model.owner(c.chunks);
        // descriptors: owner's while allocated, cleared when free; neighbours untouched
        for (i, o) in owner.iter().enumerate() {
            let want = o.map(|s| self.descs[s]).unwrap_or(SpaceDescriptor::UNINITIALIZED);
            for a in [self.addr(i), self.addr(i) + (BYTES_IN_CHUNK - 1)] {
                let got = map.get_descriptor_for_address(a);
                if got != want {
                    return Err(format!("descriptor of chunk {} (address {}) is {:?}, expected {:?} (owner: {:?})", i, a, got, want, o));
                }
            }
        }
        let mut guards = vec![c.first + c.chunks];
        if self.has_low_guard() {
            guards.push(c.first - 1);
        }
        for g in guards {
            let got = map.get_descriptor_for_address(chunk_addr(g));
            if got != self.guard {
                return Err(format!("descriptor of the neighbouring contiguous chunk (index {}) changed to {:?}", g, got));
            }
        }
        // available count
        let free = owner.iter().filter(|o| o.is_none()).count();
        let avail = map.get_available_discontiguous_chunks();
        if avail != free {
            return Err(format!("get_available_discontiguous_chunks() = {}, but {} chunks are unallocated", avail, free));
        }
        // region lists
        let mut covered: Vec<Option<(usize, usize)>> = vec![None; c.chunks];
        for s in 0..c.spaces {
            let want = st.model.regions_of(s);
            let head = self.head(st, s);
            if want.is_empty() {
                if !head.is_zero() {
                    return Err(format!("space {} has no regions but its list head is {}", s, head));
                }
                continue;
            }
            let mut visited = BTreeSet::new();
            let mut prev_idx = 0usize;
            let mut cur = head;
            while !cur.is_zero() {
                let Some(r) = self.rel(cur) else {
                    return Err(format!("list of space {}: reached {}, which is not a chunk of the discontiguous range (visited so far {:?})", s, cur, visited));
                };
                if !visited.insert(r) {
                    return Err(format!("list of space {}: cycle through chunk {} (visited {:?})", s, r, visited));
                }
                let Some(&(len, o)) = st.model.regions.get(&r) else {
                    return Err(format!("list of space {}: visits chunk {}, which is not the start of an allocated region (regions of the space {:?})", s, r, want));
                };
                if o != s {
                    return Err(format!("list of space {}: visits the region at chunk {}, which belongs to space {}", s, r, o));
                }
                let pl = hook::prev_link(map, self.idx(r));
                if pl as usize != prev_idx {
                    return Err(format!("list of space {}: prev link of region {} is chunk index {}, expected {}", s, r, pl, prev_idx));
                }
                let got = map.get_contiguous_region_chunks(cur);
                if got != len {
                    return Err(format!("get_contiguous_region_chunks(region {}) = {}, expected {}", r, got, len));
                }
                let got = map.get_contiguous_region_size(cur);
                if got != len << LOG_BYTES_IN_CHUNK {
                    return Err(format!("get_contiguous_region_size(region {}) = {}, expected {}", r, got, len << LOG_BYTES_IN_CHUNK));
                }
                for i in r..r + len {
                    if i >= c.chunks {
                        return Err(format!("region {} of space {} ({} chunks) leaves the discontiguous range", r, s, len));
                    }
                    if let Some(other) = covered[i] {
                        return Err(format!("regions overlap at chunk {}: region {} of space {} and region {} of space {}", i, r, s, other.1, other.0));
                    }
                    covered[i] = Some((s, r));
                }
                prev_idx = self.idx(r);
                cur = map.get_next_contiguous_region(cur);
            }
            if visited != want {
                return Err(format!("list of space {} links regions {:?}, but its allocated regions are {:?}", s, visited, want));
            }
        }
        Ok(())
    }

    fn silent_replay(&self, hist: &[Op]) -> St {
        let was = self.counting.replace(false);
        let mut st = self.fresh();
        for (i, op) in hist.iter().enumerate() {
            match common::catch(|| self.apply(&mut st, op)) {
                Ok(Ok(_)) => {}
                Ok(Err(m)) => machinery_failure(&format!("C29 replay divergence at step {} of {:?}: {}", i, hist, m)),
                Err(p) => machinery_failure(&format!("C29 replay divergence at step {} of {:?}: panic {}", i, hist, p)),
            }
        }
        self.counting.set(was);
        st
    }
}

impl Subject for MapSubject {
    type Op = Op;
    type State = St;
    /// the history: a state is rebuilt by replaying it on a fresh private map
    type Snap = Vec<Op>;

    fn name(&self) -> String {
        format!("map32[{:?}]", self.cfg)
    }

    fn fresh(&self) -> St {
        if let Some(st) = self.pool.borrow_mut().take() {
            return st;
        }
        let st = self.build();
        let mut p = self.pristine.borrow_mut();
        if p.is_none() {
            *p = Some(self.key(&st));
        }
        st
    }

    fn dispose(&self, mut st: St) {
        if !self.reuse || st.tainted.get() {
            return; // dropped
        }
        // bring the map back to the initial state through the driver, then verify that it is
        // indistinguishable from a freshly built one; otherwise drop it
        let ok = common::catch(|| {
            for s in 0..self.cfg.spaces {
                if self.cfg.via_pr {
                    st.prs[s].release_all_chunks();
                } else {
                    st.map.free_all_chunks(st.heads[s]);
                    st.heads[s] = Address::ZERO;
                }
            }
            st.model.regions.clear();
            for o in st.model.last_owner.iter_mut() {
                *o = None;
            }
            st.hist.clear();
            self.check(&st).is_ok() && Some(self.key(&st)) == *self.pristine.borrow()
        });
        match ok {
            Ok(true) => *self.pool.borrow_mut() = Some(st),
            Ok(false) => {
                *self.counters.borrow_mut().entry("map_not_reusable_after_reset".to_string()).or_insert(0) += 1;
            }
            Err(_) => {
                *self.counters.borrow_mut().entry("map_not_reusable_after_reset".to_string()).or_insert(0) += 1;
                std::mem::forget(st);
            }
        }
    }

    fn snapshot(&self, st: &St) -> Option<Vec<Op>> {
        Some(st.hist.clone())
    }
    fn restore(&self, snap: &Vec<Op>) -> St {
        self.silent_replay(snap)
    }

    fn enabled(&self, st: &St) -> Vec<Op> {
        let mut ops = vec![];
        // A map is rebuilt only after an execution that ended in a violation (or whose reset did
        // not verify).  Once that has happened many times the verdict is settled: stop expanding
        // (the configuration is then reported as not closed).
        if self.counters.borrow().get("maps_built").copied().unwrap_or(0) > MAX_MAPS_BUILT && self.reuse {
            self.cut.set(true);
            return ops;
        }
        for s in 0..self.cfg.spaces {
            for n in 1..=self.cfg.max_n {
                ops.push(Op::Alloc { s, n });
            }
        }
        for (&c, &(_, s)) in &st.model.regions {
            ops.push(Op::Free { s, c });
        }
        for s in 0..self.cfg.spaces {
            ops.push(Op::FreeAll { s });
        }
        if !self.cfg.via_pr {
            for (&c, &(_, s)) in &st.model.regions {
                if self.addr(c) != st.heads[s] {
                    ops.push(Op::FreeAllFrom { s, c });
                }
            }
        }
        ops
    }

    fn apply(&self, st: &mut St, op: &Op) -> Result<bool, String> {
        let chunks = self.cfg.chunks;
        let nontrivial;
        st.tainted.set(true);
        match *op {
            Op::Alloc { s, n } => {
                let got = if self.cfg.via_pr {
                    st.prs[s].grow_discontiguous_space(self.descs[s], n, None)
                } else {
                    let r = unsafe { st.map.allocate_contiguous_chunks(self.descs[s], n, st.heads[s], None) };
                    if !r.is_zero() {
                        st.heads[s] = r;
                    }
                    r
                };
                let runs = st.model.free_runs(chunks);
                let fits = runs.iter().any(|r| r.1 >= n);
                let avail: usize = runs.iter().map(|r| r.1).sum();
                if got.is_zero() {
                    if fits {
                        return Err(format!("allocation of {} chunks for space {} failed although the free runs {:?} contain one that is long enough", n, s, runs));
                    }
                    self.count("alloc_refused");
                    nontrivial = avail >= n;
                    if nontrivial {
                        self.count("alloc_refused_by_fragmentation");
                    }
                } else {
                    let Some(c) = self.rel(got) else {
                        return Err(format!("allocation of {} chunks for space {} returned {}, which is not a chunk of the discontiguous range", n, s, got));
                    };
                    if !fits {
                        return Err(format!("allocation of {} chunks for space {} returned chunk {} although no free run of {} chunks exists (free runs {:?})", n, s, c, n, runs));
                    }
                    if !runs.iter().any(|r| r.0 <= c && c + n <= r.0 + r.1) {
                        return Err(format!("allocation of {} chunks for space {} returned chunks [{}, {}), which are not all free (free runs {:?})", n, s, c, c + n, runs));
                    }
                    let reused_foreign = (c..c + n).any(|i| st.model.last_owner[i].map(|o| o != s).unwrap_or(false));
                    st.model.regions.insert(c, (n, s));
                    for i in c..c + n {
                        st.model.last_owner[i] = Some(s);
                    }
                    self.count("alloc_granted");
                    if reused_foreign {
                        self.count("alloc_reusing_chunk_of_other_space");
                    }
                    nontrivial = reused_foreign;
                }
            }
            Op::Free { s, c } => {
                let pos = self.position(st, s, c);
                self.count(&format!("free_{}", pos));
                let a = self.addr(c);
                if self.cfg.via_pr {
                    st.prs[s].release_discontiguous_chunks(a);
                } else {
                    // exactly CommonPageResource::release_discontiguous_chunks
                    if a == st.heads[s] {
                        st.heads[s] = st.map.get_next_contiguous_region(a);
                    }
                    unsafe { st.map.free_contiguous_chunks(a) };
                }
                st.model.regions.remove(&c);
                nontrivial = pos != "only";
            }
            Op::FreeAll { s } => {
                let n = st.model.regions_of(s).len();
                self.count(&format!("free_all_of_{}", n.min(3)));
                if self.cfg.via_pr {
                    st.prs[s].release_all_chunks();
                } else {
                    st.map.free_all_chunks(st.heads[s]);
                    st.heads[s] = Address::ZERO;
                }
                st.model.regions.retain(|_, r| r.1 != s);
                nontrivial = n >= 2;
            }
            Op::FreeAllFrom { s, c } => {
                let pos = self.position(st, s, c);
                self.count(&format!("free_all_from_{}", pos));
                st.map.free_all_chunks(self.addr(c));
                st.heads[s] = Address::ZERO;
                st.model.regions.retain(|_, r| r.1 != s);
                nontrivial = true;
            }
        }
        st.hist.push(op.clone());
        st.tainted.set(false);
        Ok(nontrivial)
    }

    fn check(&self, st: &St) -> Result<(), String> {
        let r = self.check_inner(st);
        if r.is_err() {
            st.tainted.set(true);
        }
        r
    }

    fn key(&self, st: &St) -> Vec<u8> {
        // model state + every part of the real state that later operations read: list order of
        // every space (decides heads after frees), raw prev/next links of every chunk of the
        // range, the link order and sizes of the region map's free list (decides which run the
        // next allocation returns), the available count and the heads.
        let c = &self.cfg;
        let relb = |i: i32| -> u8 {
            if i == 0 {
                0
            } else if (i as usize) >= c.first && (i as usize) < c.first + c.chunks {
                (i as usize - c.first + 1) as u8
            } else {
                0xee
            }
        };
        let mut k = vec![];
        let owner = st.model.owner(c.chunks);
        for (i, o) in owner.iter().enumerate() {
            k.push(o.map(|s| s as u8 + 1).unwrap_or(0));
            k.push(st.model.regions.get(&i).map(|r| r.0 as u8).unwrap_or(0));
            k.push(relb(hook::prev_link(&st.map, self.idx(i))));
            k.push(relb(hook::next_link(&st.map, self.idx(i))));
        }
        for s in 0..c.spaces {
            k.push(0xff);
            for a in self.walk(st, s) {
                k.push(self.rel(a).map(|r| r as u8 + 1).unwrap_or(0xee));
            }
        }
        k.push(0xfe);
        for (u, size) in self.free_list_order(st) {
            k.push(relb(u));
            k.push(size.clamp(0, 255) as u8);
        }
        k.push(0xfd);
        k.push(st.map.get_available_discontiguous_chunks().min(255) as u8);
        k
    }

    fn op_json(&self, op: &Op) -> Value {
        match *op {
            Op::Alloc { s, n } => json!({"op": "alloc", "s": s, "n": n}),
            Op::Free { s, c } => json!({"op": "free", "s": s, "c": c}),
            Op::FreeAll { s } => json!({"op": "free_all", "s": s}),
            Op::FreeAllFrom { s, c } => json!({"op": "free_all_from", "s": s, "c": c}),
        }
    }

    fn signature(&self, op: &Op, msg: &str) -> String {
        let d = if self.cfg.via_pr { "pr" } else { "direct" };
        let o = match op {
            Op::Alloc { .. } => "alloc",
            Op::Free { .. } => "free",
            Op::FreeAll { .. } => "free_all",
            Op::FreeAllFrom { .. } => "free_all_from",
        };
        let what = if msg.starts_with("panic") {
            "panic"
        } else if msg.starts_with("descriptor") {
            "descriptor"
        } else if msg.starts_with("get_available") {
            "available"
        } else if msg.starts_with("allocation") {
            "result"
        } else if msg.starts_with("get_contiguous") {
            "region_size"
        } else {
            "list"
        };
        format!("{}:{}:{}", d, o, what)
    }
}

pub fn op_from_json(v: &Value) -> Op {
    let g = |k: &str| v[k].as_u64().unwrap_or(0) as usize;
    match v["op"].as_str().unwrap_or("") {
        "alloc" => Op::Alloc { s: g("s"), n: g("n") },
        "free" => Op::Free { s: g("s"), c: g("c") },
        "free_all" => Op::FreeAll { s: g("s") },
        "free_all_from" => Op::FreeAllFrom { s: g("s"), c: g("c") },
        other => machinery_failure(&format!("unknown C29 op {:?}", other)),
    }
}

fn cfg_json(c: &Cfg) -> Value {
    json!({"first": c.first, "chunks": c.chunks, "spaces": c.spaces, "max_n": c.max_n, "via_pr": c.via_pr})
}

fn cfg_from_json(v: &Value) -> Cfg {
    let g = |k: &str| v[k].as_u64().unwrap_or_else(|| machinery_failure("bad C29 cfg")) as usize;
    Cfg { first: g("first"), chunks: g("chunks"), spaces: g("spaces"), max_n: g("max_n"), via_pr: v["via_pr"].as_bool().unwrap_or(true) }
}

/// number of chunk indices a Map32 tracks on this target (VMLayout::max_chunks is layout independent)
const MAX_CHUNKS: usize = 1 << (VMLayout::LOG_ARCH_ADDRESS_SPACE - LOG_BYTES_IN_CHUNK);

pub fn configs(tier: common::Tier) -> Vec<Cfg> {
    // positions of the range: lowest possible (chunk 1: chunk 0 is the list terminator, no lower
    // neighbour), above the heap range of the layout, and the highest possible (one trailing chunk)
    let low = 1;
    let mid = (48usize << 30) >> LOG_BYTES_IN_CHUNK;
    let mut v = vec![];
    let (chunks, spaces) = tier.pick((5, 3), (6, 3));
    let top = MAX_CHUNKS - 1 - chunks;
    for via_pr in [true, false] {
        v.push(Cfg { first: mid, chunks, spaces, max_n: 3, via_pr });
    }
    for via_pr in [true, false] {
        v.push(Cfg { first: low, chunks: chunks - 1, spaces: 2, max_n: 3, via_pr });
        v.push(Cfg { first: top, chunks: chunks - 1, spaces: 2, max_n: 3, via_pr });
    }
    if tier == common::Tier::Thorough {
        // a longer range, and more spaces than the range can serve at once
        for via_pr in [true, false] {
            v.push(Cfg { first: mid, chunks: 7, spaces: 3, max_n: 3, via_pr });
        }
        v.push(Cfg { first: mid, chunks: 6, spaces: 4, max_n: 3, via_pr: true });
        v.push(Cfg { first: mid, chunks: 7, spaces: 2, max_n: 3, via_pr: false });
        // largest first, so that the threads finish together
        v.sort_by_key(|c| std::cmp::Reverse(c.chunks * 10 + c.spaces));
    }
    v
}

const RULE: &str = "BFS to closure, per configuration (range position, chunks, spaces, driver), over allocate(s, n in 1..=3) / free of any one region of s / free_all(s) [/ free_all_chunks from a non-head region, direct driver] on a private real Map32 that starts every execution in its initial state (newly built, or reused after a reset whose complete observation was verified to equal a new map's); after every operation: result vs. model (fails iff no free run of n chunks), descriptor of every chunk (first and last byte) == owner's or UNINITIALIZED, neighbouring contiguous chunks' descriptors untouched, walk of get_next_contiguous_region from every space's head == that space's regions with consistent prev links, exact get_contiguous_region_chunks/size, regions disjoint and inside the range, available count == unallocated chunks; states deduplicated on model + real list orders + raw links + region-map free-list order; distinct_nontrivial = transitions that (i) unlink a region that has a list neighbour (free of head/middle/tail, free_all of >= 2 regions, free_all from a non-head region), (ii) grant chunks last owned by a different space, or (iii) refuse an allocation although available >= n (fragmentation)";

pub fn run(run: &mut Run) {
    // One child process: the VM layout and SFT_MAP are process globals, and setting them up (the
    // sparse SFT map of a compressed-pointer layout has 2^25 entries) is paid once.  The child
    // explores the configurations on threads, each with its own private maps.
    let tier = run.tier.name().to_string();
    let timeout = run.tier.pick(300, 1500);
    let results = common::run_children(vec![vec!["--child".into(), "C29".into(), tier, run.jobs.to_string()]], 1, timeout);
    let r = &results[0];
    if r.get("child_died").is_some() {
        machinery_failure(&format!("C29 child died: {}", r));
    }
    let mut per_cfg = vec![];
    let mut by_kind: BTreeMap<String, u64> = BTreeMap::new();
    let empty = vec![];
    let per = r["configs"].as_array().unwrap_or(&empty);
    if per.is_empty() {
        machinery_failure("C29 child reported no configuration");
    }
    for x in per {
        let s = &x["stats"];
        let st = seqx::Stats {
            states: s["states"].as_u64().unwrap_or(0),
            transitions: s["transitions"].as_u64().unwrap_or(0),
            nontrivial: s["nontrivial"].as_u64().unwrap_or(0),
            max_depth: s["max_depth"].as_u64().unwrap_or(0),
            closed: s["closed"].as_bool().unwrap_or(false),
            violations: s["violations"].as_u64().unwrap_or(0),
        };
        seqx::add_stats(run, &st);
        if let Some(a) = x["run"]["violations"].as_array() {
            for v in a {
                run.violation(v["signature"].as_str().unwrap_or("?").to_string(), v["message"].as_str().unwrap_or("").to_string(), v["case"].clone());
            }
        }
        if let Some(m) = x["counters"].as_object() {
            for (k, v) in m {
                *by_kind.entry(k.clone()).or_insert(0) += v.as_u64().unwrap_or(0);
            }
        }
        if !x["sample"].is_null() {
            run.sample(x["sample"].clone());
        }
        if !st.closed {
            run.add("configs_capped", 1);
        }
        per_cfg.push(json!({"cfg": x["cfg"], "states": st.states, "transitions": st.transitions, "nontrivial": st.nontrivial, "max_depth": st.max_depth, "closed": st.closed}));
    }
    run.set("configurations", per_cfg.len() as u64);
    run.set("per_config", Value::Array(per_cfg));
    run.set("transitions_by_kind", json!(by_kind));
    run.set("env_init_ms", r["env_init_ms"].as_u64().unwrap_or(0));
    run.set("rule", RULE);
    run.assume("operations follow the CommonPageResource protocol: a space passes its own list head to allocate_contiguous_chunks, frees only regions it owns (by their start chunk), and updates its head before freeing the head region; one thread per map");
    run.assume("which sufficiently long free run an allocation returns is left open (any run of free chunks is accepted)");
    run.assume("the private maps manage chunk ranges outside the heap range of the process's NoGC instance (whose only role is to initialise SFT_MAP); the return value of free_contiguous_chunks is not part of the property and is not checked");
}

/// Explore one configuration; returns the JSON record the parent merges.
fn explore(cfg: &Cfg, tier: common::Tier) -> Value {
    let subj = MapSubject::new(cfg.clone());
    let mut sub = Run::new("C29", tier);
    let max_states = tier.pick(400_000, 3_000_000);
    let st = seqx::bfs(&subj, &mut sub, cfg_json(cfg), 64, max_states);
    // a sample scenario, actually executed here (not counted)
    subj.counting.set(false);
    let sp1 = 1 % cfg.spaces;
    let sample_hist = vec![Op::Alloc { s: 0, n: 1 }, Op::Alloc { s: sp1, n: 2 }, Op::Alloc { s: 0, n: 1 }, Op::Free { s: 0, c: 0 }, Op::Alloc { s: sp1, n: 1 }];
    let sample = match seqx::replay(&subj, &sample_hist) {
        Ok(s) => {
            let owners = s.model.owner(cfg.chunks);
            let lists: Vec<Vec<usize>> = (0..cfg.spaces).map(|sp| subj.walk(&s, sp).iter().map(|a| subj.rel(*a).unwrap_or(usize::MAX)).collect()).collect();
            json!({"cfg": cfg_json(cfg), "history": sample_hist.iter().map(|o| subj.op_json(o)).collect::<Vec<_>>(), "owner_per_chunk": owners, "real_lists_head_first": lists, "available": s.map.get_available_discontiguous_chunks(), "bfs_states": st.states, "bfs_closed": st.closed})
        }
        Err((i, m)) => json!({"cfg": cfg_json(cfg), "sample_history_failed_at": i, "message": m}),
    };
    let mut counters = subj.counters.borrow().clone();
    if subj.cut.get() {
        counters.insert("configs_cut_short_after_violations".to_string(), 1);
    }
    json!({
        "cfg": cfg_json(cfg),
        "stats": {"states": st.states, "transitions": st.transitions, "nontrivial": st.nontrivial, "max_depth": st.max_depth, "closed": st.closed && !subj.cut.get(), "violations": st.violations},
        "run": sub.to_child_json(),
        "counters": counters,
        "sample": sample,
    })
}

pub fn child(args: &[String]) -> ! {
    let tier = if args.first().map(|s| s.as_str()) == Some("thorough") { common::Tier::Thorough } else { common::Tier::Quick };
    let jobs: usize = args.get(1).and_then(|s| s.parse().ok()).unwrap_or(4);
    let t0 = std::time::Instant::now();
    env_init();
    let env_ms = t0.elapsed().as_millis() as u64;
    let mut cfgs = configs(tier);
    // manual cross-checks: explore a single configuration given as JSON
    if let Ok(only) = std::env::var("VERIF_C29_ONLY") {
        cfgs = vec![cfg_from_json(&serde_json::from_str::<Value>(&only).unwrap_or_else(|_| machinery_failure("bad VERIF_C29_ONLY")))];
    }
    let next = std::sync::atomic::AtomicUsize::new(0);
    let results: std::sync::Mutex<Vec<Option<Value>>> = std::sync::Mutex::new(vec![None; cfgs.len()]);
    std::thread::scope(|sc| {
        for _ in 0..jobs.min(cfgs.len()).max(1) {
            sc.spawn(|| {
                common::quiet_panics();
                loop {
                    let i = next.fetch_add(1, std::sync::atomic::Ordering::SeqCst);
                    if i >= cfgs.len() {
                        break;
                    }
                    let r = explore(&cfgs[i], tier);
                    results.lock().unwrap()[i] = Some(r);
                }
            });
        }
    });
    let per: Vec<Value> = results.into_inner().unwrap().into_iter().map(|r| r.unwrap_or(Value::Null)).collect();
    if std::env::var("VERIF_TIMING").is_ok() {
        eprintln!("[C29 timing] env_init {} ms, total {:?}", env_ms, t0.elapsed());
    }
    common::emit_child_result(&json!({"configs": per, "env_init_ms": env_ms}))
}

pub fn replay(case: &Value, run: &mut Run) {
    // the replay process does nothing else, so the environment can be set up in-process
    env_init();
    let c = cfg_from_json(&case["cfg"]);
    let s = MapSubject::new(c);
    let hist: Vec<Op> = case["history"].as_array().unwrap_or_else(|| machinery_failure("replay case without history")).iter().map(op_from_json).collect();
    match seqx::replay(&s, &hist) {
        Ok(_) => {}
        Err((i, m)) => run.violation("replay", format!("step {}: {}", i, m), case.clone()),
    }
}
