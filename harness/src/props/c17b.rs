//! C17, seam (b) — the REAL `trace_object` of the copying policies raced by GC workers inside a real
//! collection (engine `baton`, persistent mode, infrastructure of `props/sched.rs`).
//!
//! A real `MMTK<VerifVM>` instance (SemiSpace, GenCopy: `CopySpace::trace_object`; Immix with
//! `immix_always_defrag` + `immix_defrag_every_block`: `ImmixSpace::trace_object_with_opportunistic_copy`)
//! runs a forced collection.  The heap holds an object T that is reachable only as the value of
//! an ephemeron whose key is rooted, so nothing traces it before the binding's first
//! `process_weak_refs` call.  That call fans out 2 (thorough also 3) work packets into the
//! VMRefClosure bucket, each with a clone of the `ObjectTracerContext`, and each packet calls
//! `with_tracer(worker, |t| t.trace_object(T))` (`vm::TRACE_FANOUT`).  The binding's own weak
//! processing follows in the next call and stores what `trace_object(T)` returns then into the
//! ephemeron table.
//!
//! Scheduling points: everything C14 arms (monitor / shim / scheduler protocol) plus the metadata
//! atomics on T's forwarding word (forwarding bits + pointer; bits on side: that byte); the
//! forwarding spin loop is a yield point.  Only the race
//! is explored: the exploration window opens when the packets are fanned out and closes when the
//! last racer has returned; outside it the default schedule runs.  Inside it: every schedule with
//! at most `bound` preemptions (2 racers: quick 3, thorough 4; 3 racers on 3 workers, thorough:
//! 3 for SemiSpace and Immix, 2 for GenCopy and GenImmix) and `free_bound` free deviations.
//!
//! Oracle (signatures `fwd:<clause>:race`; a worker panic is `sched:crash:...:race`):
//! `ObjectModel::copy` ran exactly once for T (Immix: at most once), every racer ran, all racers
//! got the same reference, it is the copy (or T itself if nobody copied), the ephemeron table
//! holds the same reference after the collection, `World::verify_heap` passes (T's content is
//! intact at the new address, nothing else damaged), and all scheduler clauses of C14 / C15 hold
//! for the collection.

use crate::common::{machinery_failure, Run, Tier};
use crate::props::sched::{self, ChildCfg, Job, Kind, Pattern, Plan};
use serde_json::Value;

/// Everything a race child can report belongs to C17.
pub fn owns(sig: &str) -> bool {
    sig.ends_with(":race")
}

pub fn is_case(case: &Value) -> bool {
    case["job"]["kind"].as_str().map(|k| k.starts_with("race")).unwrap_or(false)
}

pub fn plans(tier: Tier) -> Vec<Plan> {
    let thorough = tier == Tier::Thorough;
    let defrag: Vec<(String, String)> = vec![("immix_always_defrag".into(), "true".into()), ("immix_defrag_every_block".into(), "true".into())];
    let mut out = vec![];
    let cfgs: Vec<(&str, Vec<(String, String)>)> = if thorough { vec![("SemiSpace", vec![]), ("Immix", defrag.clone()), ("GenCopy", vec![]), ("GenImmix", defrag.clone())] } else { vec![("SemiSpace", vec![]), ("Immix", defrag.clone())] };
    for (plan, options) in cfgs {
        let worker_counts: Vec<usize> = if thorough { vec![2, 3] } else { vec![2] };
        for workers in worker_counts {
            let cfg = ChildCfg { plan: plan.to_string(), workers, eph_chain: 1, refs: false, options: options.clone(), mutators: 1, bare: false };
            let main = plan == "SemiSpace" || plan == "Immix";
            // measured (SemiSpace): 2 workers / 2 racers: 3 258 executions at bound 3, 21 422 at bound 4;
            // 3 workers / 3 racers: 11 228 at bound 2, 292 251 at bound 3
            let mut jobs = vec![];
            if workers == 2 {
                jobs.push(Job { kind: Kind::Race { racers: 2 }, pattern: Pattern::empty(), via_worker: false, bound: if thorough { 4 } else { 3 }, free_bound: if thorough { 3 } else { 2 }, spurious: 0, prog: vec![] });
            } else {
                jobs.push(Job { kind: Kind::Race { racers: 2 }, pattern: Pattern::empty(), via_worker: false, bound: 3, free_bound: 2, spurious: 0, prog: vec![] });
                jobs.push(Job { kind: Kind::Race { racers: 3 }, pattern: Pattern::empty(), via_worker: false, bound: if main { 3 } else { 2 }, free_bound: 2, spurious: 0, prog: vec![] });
            }
            // one child per job
            for j in jobs {
                out.push(Plan { cfg: cfg.clone(), jobs: vec![j] });
            }
        }
    }
    out
}

/// The in-GC phase of C17; `run` already holds the results of seam (a).
pub fn run(run: &mut Run) {
    let plans = plans(run.tier);
    let n = plans.len() as u64;
    let mut sub = Run::new(&run.id, run.tier);
    sub.jobs = run.jobs;
    sched::run_parent(&mut sub, plans, &owns, run.tier.pick(200, 1500));
    // merge under own keys: seam (a)'s counters keep their meaning
    if sub.violations.is_empty() && sub.coverage.get("distinct_nontrivial").and_then(|v| v.as_u64()).unwrap_or(0) == 0 {
        machinery_failure("C17 seam (b): vacuous: in no execution did two racers overlap");
    }
    sched::merge_phase(run, sub, "in_gc", n);
    run.set("in_gc_rule", "seam (b): per (plan {SemiSpace, Immix with forced defragmentation; thorough + GenCopy, GenImmix}, GC workers {2; thorough 2, 3}, racers {2; thorough 2, 3}): a real forced collection of a real MMTK instance in which the binding's first process_weak_refs call fans out the racers as work packets (clones of the ObjectTracerContext, VMRefClosure bucket) that all call trace_object on the same not yet reached object; every interleaving of the worker threads at the metadata atomics of that object's forwarding bits / pointer, the forwarding spin loop, the worker monitor and the scheduler protocol points, from the fan-out until the last racer returned, with at most the stated preemptions; oracle: ObjectModel::copy ran once for the object (Immix: at most once), all racers and the later weak processing got the same reference, the heap verifies; non-trivial = a racer started while another had not yet returned");
    run.assume("seam (b): outside the race window (before the fan-out, after the last racer) the default schedule runs; sequentially consistent interleavings at the instrumented points");
}

pub fn replay(case: &Value, run: &mut Run) {
    sched::replay(&run.id.clone(), case, run);
}

pub fn child(args: &[String]) -> ! {
    sched::child("C17", args)
}
