//! C02 — memory returned by a successful allocation never overlaps a reachable object or any
//! other allocation made since the last collection, also across collections (reuse of reclaimed
//! space).  Programs over {alloc of sizes at line/block/LOS boundaries, bursts that fragment the
//! heap (allocate n, keep every k-th), drop root, GC, second mutator allocating alternately};
//! every allocation result is checked against the shadow interval set.

use crate::common::{Run, Tier};
use crate::progs::{Alphabet, Op, ProgFacts};
use crate::shadow_check::Profile;
use crate::shadowvm::{BootCfg, Sem, ALL_PLANS};
use serde_json::Value;

fn plans(_t: Tier) -> Vec<&'static str> {
    ALL_PLANS.to_vec()
}

fn alphabet(_plan: &str, v: &str, t: Tier) -> Alphabet {
    if v == "align" {
        // the alignment dimension: unrooted allocations with non-trivial (align, offset) around page
        // multiples, in the default and the large-object space, and long runs of small over-aligned
        // objects, next to rooted objects and across collections
        return Alphabet { sizes: vec![40], sems: vec![Sem::Default], gc_kinds: vec![false, true], bursts: vec![(264, 100, 2)], refused_allocs: false, align_bursts: true, eph_chains: vec![], two_mutators: false, pins: false, cross_writes: false, fields: 0 };
    }
    if v == "stress" {
        // long mixed-size bursts: the precise-stress paths juggle the limits of both bump
        // pointers, which only matters once many blocks have been consumed
        return Alphabet { sizes: vec![40, 264], sems: vec![Sem::Default], gc_kinds: vec![false, true], bursts: vec![(1, 2400, 3), (264, 100, 2)], refused_allocs: false, align_bursts: true, eph_chains: vec![], two_mutators: false, pins: false, cross_writes: false, fields: 0 };
    }
    Alphabet {
        sizes: vec![40, 264, 81920],
        sems: vec![Sem::Default],
        gc_kinds: vec![false, true],
        bursts: if t == Tier::Thorough { vec![(264, 150, 2), (40, 400, 3), (2048, 40, 2), (1, 400, 3)] } else { vec![(264, 100, 2), (40, 250, 3), (1, 160, 3)] },
        refused_allocs: false, align_bursts: false, eph_chains: vec![], two_mutators: true,
        pins: false,
        cross_writes: false,
        fields: 0,
    }
}

fn depth(plan: &str, v: &str, t: Tier) -> usize {
    let d = depth_main(plan, t);
    if v == "stress" || v == "align" {
        (d - 1).min(3)
    } else {
        d
    }
}

fn depth_main(plan: &str, t: Tier) -> usize {
    match (plan, t) {
        ("NoGC", _) => 2,
        ("MarkCompact", Tier::Quick) | ("PageProtect", Tier::Quick) => 3,
        (_, Tier::Quick) => 4,
        // PageProtect maps and protects a page per object: depth 4 with bursts needs ~40 CPU-minutes
        ("PageProtect", Tier::Thorough) => 3,
        ("MarkCompact", Tier::Thorough) => 4,
        (_, Tier::Thorough) => 5,
    }
}

/// "" = default options; "stress" = `stress_factor` set (with the default `precise_stress`), which
/// sends every allocation through the allocators' precise-stress slow paths.
fn variants(plan: &str, _t: Tier) -> Vec<&'static str> {
    if plan == "NoGC" {
        vec![""]
    } else {
        vec!["", "stress", "align"]
    }
}

fn boot(plan: &str, v: &str, _t: Tier) -> BootCfg {
    let mut c = BootCfg::new(plan);
    c.heap_bytes = if plan == "NoGC" { 3 << 30 } else { 32 << 20 };
    if v == "stress" {
        // a stress GC every 8 MiB of allocation: rare enough to keep the programs' own GC
        // structure, but every allocation takes the precise-stress path
        c.options.push(("stress_factor".to_string(), format!("{}", 8 << 20)));
    }
    c
}

pub fn owns(sig: &str) -> bool {
    sig.starts_with("alloc:overlap")
}

fn nontrivial(f: &ProgFacts) -> bool {
    // an allocation happened after a collection that reclaimed something while other objects
    // stayed live (reuse of reclaimed space next to live data)
    f.allocs_after_reclaim > 0
}

fn filter(_v: &str, p: &[Op]) -> bool {
    // programs whose last operation allocates (the oracle is evaluated at allocations)
    matches!(p.last(), Some(Op::Alloc { .. } | Op::Burst { .. } | Op::AlignBurst { .. } | Op::AllocBy1 { .. }))
}

pub const PROFILE: Profile = Profile {
    id: "C02",
    plans,
    variants,
    alphabet,
    depth,
    boot,
    owns,
    nontrivial,
    filter,
    rule: "every program of length <= depth over {alloc(40 B | 264 B | 80 KiB), burst(size,count,keep-every-k) in {(264,100,2),(40,250,3),(mixed sizes 40/264/520/1032/2048 interleaved,160,3)} (thorough: (264,150,2),(40,400,3),(2048,40,2),(mixed,400,3)) (fragmenting: the dropped ones leave holes next to live data), an alignment burst (84 unrooted allocations of 4088..16376 B with (align, offset) in {(8,0),(16,8),(32,8),(64,8),(64,56),(16,0)} as Default and as Los, then 1500 objects of 24 B aligned to 16 with offset 0/8), drop root, GC(normal), GC(exhaustive), bind/destroy a second mutator that allocates too} ending in an allocation, per plan, once with default options and once (one level shallower) with stress_factor set, which routes every allocation through the precise-stress slow paths; every address range returned by alloc must be disjoint from every shadow-reachable object and from every range handed out since the last collection. distinct_nontrivial = programs with an allocation after a collection that found both live and dead objects",
    post: None,
    timeout_s: |t| t.pick(300, 3000),
};

pub fn run(run: &mut Run) {
    crate::shadow_check::run(&PROFILE, run);
    run.assume("one GC worker; mutators are played by one thread (allocation interleaving of two mutators at operation granularity)");
}

pub fn replay(case: &Value, run: &mut Run) {
    crate::shadow_check::replay(&PROFILE, case, run);
}

pub fn child(args: &[String]) {
    crate::shadow_check::child(&PROFILE, args);
}
