//! C07 — with `vo_bit`, after an exhaustive stop-the-world collection `MMTK::enumerate_objects`
//! visits, and `is_mmtk_object` accepts, exactly the objects that survived (reachable objects plus
//! every object of a never-collected space), each exactly once; no reclaimed object is still
//! reported as a valid object.
//!
//! Engine `shadowvm`: every mutator program up to a depth per plan, run on a real MMTK instance
//! through the `VerifVM` binding.  The oracle runs after *every* exhaustive collection a program
//! requests (inside the program, its closing collection, and the collection of the reset between
//! two programs), through `World::post_gc_hook`:
//!
//! * `enum:`  the multiset of addresses visited by `mmtk.enumerate_objects` must equal the set of
//!   shadow survivors (`shadow.objs` after `verify_heap` = the reachable objects, at their adopted
//!   addresses, plus `shadow.immortal_garbage` = unreachable objects of never-collected spaces;
//!   under NoGC everything ever allocated);
//! * `valid:` `is_mmtk_object(a)` must be `Some(a)` for the address of every survivor and `None`
//!   for the last address of every object that died since the previous exhaustive collection
//!   (`World::dead_log`) and for every address a surviving object was moved away from
//!   (`World::vacated_log`), unless a survivor lives at that address now.
//!
//! Nothing is demanded after a non-exhaustive collection (a nursery collection legitimately keeps
//! old garbage valid); the dead objects it forgets stay in the log until the next exhaustive one.

#![cfg(feature = "vo_bit")]

use crate::common::{catch, Run, Tier};
use crate::progs::{Alphabet, Op, ProgFacts};
use crate::shadow_check::{count, panic_slug, Profile};
use crate::shadowvm::{BootCfg, Fail, Sem, World, ALL_PLANS};
use mmtk::util::Address;
use serde_json::Value;
use std::collections::HashMap;
use std::sync::atomic::{AtomicU64, Ordering};

/// Exhaustive-GC checks of the running program that had a reachable survivor and a dead object.
static PROG_LIVE_AND_DEAD: AtomicU64 = AtomicU64::new(0);

fn plans(_t: Tier) -> Vec<&'static str> {
    // every plan of this build supports vo_bit
    ALL_PLANS.to_vec()
}

/// "" = Default semantics, three sizes (40 B, 264 B, 80 KiB -> LOS); "imm" adds Immortal 48 B
/// objects (own process: immortal garbage accumulates for ever and every check enumerates all of
/// it).  Under Compressor the Immortal variant has no field writes ("immnw"): Compressor does not
/// update references held in Immortal objects (a recorded finding of another property, which
/// would stop the exploration of that process).
fn variants(plan: &str, _t: Tier) -> Vec<&'static str> {
    if plan == "Compressor" {
        vec!["", "immnw"]
    } else {
        vec!["", "imm"]
    }
}

fn alphabet(plan: &str, v: &str, _t: Tier) -> Alphabet {
    // a page per object (PageProtect) / nothing ever reclaimed (NoGC): smaller bursts
    let burst = if plan == "PageProtect" || plan == "NoGC" { (264, 24, 2) } else { (264, 150, 2) };
    if v.starts_with("imm") {
        return Alphabet { sizes: vec![48], sems: vec![Sem::Default, Sem::Immortal], gc_kinds: vec![false, true], bursts: vec![burst], refused_allocs: false, align_bursts: false, eph_chains: vec![], two_mutators: false, pins: false, cross_writes: false, fields: if v == "immnw" { 0 } else { 1 } };
    }
    // 64-byte objects, one kept per 256-byte line: blocks that stay completely marked although
    // three quarters of their objects die
    let dense = if plan == "PageProtect" || plan == "NoGC" { (64, 24, 4) } else { (64, 1100, 4) };
    Alphabet { sizes: vec![40, 264, 81920], sems: vec![Sem::Default], gc_kinds: vec![false, true], bursts: vec![burst, dense], refused_allocs: false, align_bursts: false, eph_chains: vec![], two_mutators: false, pins: false, cross_writes: false, fields: 1 }
}

fn depth(plan: &str, v: &str, t: Tier) -> usize {
    let d = match (plan, t) {
        ("NoGC", _) => 3,
        ("MarkCompact", Tier::Quick) | ("PageProtect", Tier::Quick) => 3,
        ("MarkCompact", Tier::Thorough) | ("PageProtect", Tier::Thorough) => 4,
        (_, Tier::Quick) => 4,
        (_, Tier::Thorough) => 5,
    };
    if v.starts_with("imm") {
        // every program leaves immortal garbage behind that all later checks enumerate
        d.min(4)
    } else {
        d
    }
}

fn boot(plan: &str, _v: &str, _t: Tier) -> BootCfg {
    let mut c = BootCfg::new(plan);
    // nothing is reclaimed under NoGC, immortal garbage accumulates elsewhere
    c.heap_bytes = if plan == "NoGC" { 3 << 30 } else { 256 << 20 };
    c.record_dead = true;
    c.post_gc_hook = Some(hook);
    c
}

pub fn owns(sig: &str) -> bool {
    sig.starts_with("enum:") || sig.starts_with("valid:")
}

fn nontrivial(_f: &ProgFacts) -> bool {
    PROG_LIVE_AND_DEAD.swap(0, Ordering::SeqCst) > 0
}

fn filter(v: &str, p: &[Op]) -> bool {
    if v.starts_with("imm") {
        return p.iter().any(|o| matches!(o, Op::Alloc { sem: Sem::Immortal, .. }));
    }
    p.iter().any(|o| matches!(o, Op::Alloc { .. } | Op::Burst { .. }))
}

fn hook(w: &mut World, exhaustive: bool) -> Result<(), Fail> {
    if !exhaustive {
        return Ok(());
    }
    check_exact(w)
}

/// NoGC never collects (`World::gc` is a no-op there): the same oracle runs once per program.
fn post(w: &mut World, _p: &[Op]) -> Result<(), Fail> {
    if w.collects {
        return Ok(());
    }
    check_exact(w)
}

fn fail<T>(sig: String, msg: String) -> Result<T, Fail> {
    Err((sig, msg))
}

/// The oracle: enumerate_objects == survivors (as multisets), is_mmtk_object exactly on them.
pub fn check_exact(w: &mut World) -> Result<(), Fail> {
    let dead = std::mem::take(&mut w.dead_log);
    let vacated = std::mem::take(&mut w.vacated_log);
    // address -> (id, semantics, size, reachable)
    let mut expect: HashMap<usize, (u64, Sem, usize, bool)> = HashMap::new();
    for o in w.shadow.objs.values() {
        expect.insert(o.addr, (o.id, o.sem, o.size, true));
    }
    for o in &w.shadow.immortal_garbage {
        expect.insert(o.addr, (o.id, o.sem, o.size, false));
    }
    let n_expected = w.shadow.objs.len() + w.shadow.immortal_garbage.len();
    if expect.len() != n_expected {
        // two shadow objects at one address: the graph check's business, not this property's
        return fail("graph:shadow_addresses_collide".into(), "two shadow survivors share an address".into());
    }
    let dead_at: HashMap<usize, &crate::shadowvm::SObj> = dead.iter().map(|d| (d.addr, d)).collect();

    // ---- enumerate_objects
    let mut seen: Vec<usize> = Vec::with_capacity(n_expected + 8);
    let mmtk = w.mmtk;
    if let Err(pm) = catch(|| mmtk.enumerate_objects(|o| seen.push(o.to_raw_address().as_usize()))) {
        return fail(format!("enum:panic{}", panic_slug(&format!("{}:0: {}", crate::common::last_panic_location(), pm))), format!("MMTK::enumerate_objects panicked after an exhaustive collection: {}", pm.lines().next().unwrap_or("")));
    }
    seen.sort_unstable();
    for pair in seen.windows(2) {
        if pair[0] == pair[1] {
            let what = expect.get(&pair[0]).map(|e| e.1.name()).unwrap_or("unknown");
            return fail(format!("enum:duplicate:{}", what), format!("enumerate_objects visited the object at {:#x} more than once", pair[0]));
        }
    }
    for a in &seen {
        if !expect.contains_key(a) {
            return match dead_at.get(a) {
                Some(d) => fail(format!("enum:dead_reported:{}", d.sem.name()), format!("enumerate_objects visited {:#x}, the address of object id {} ({}, {} B) which died in this exhaustive collection (no survivor lives there)", a, d.id, d.sem.name(), d.size)),
                None => fail("enum:unknown_reported".into(), format!("enumerate_objects visited {:#x}, which is not the address of any surviving object ({} survivors expected, {} visited)", a, n_expected, seen.len())),
            };
        }
    }
    if seen.len() != n_expected {
        // deterministic choice of the reported object: the lowest missing address
        let mut missing: Vec<(&usize, &(u64, Sem, usize, bool))> = expect.iter().filter(|(a, _)| seen.binary_search(a).is_err()).collect();
        missing.sort_by_key(|(a, _)| **a);
        let (a, (id, sem, size, reach)) = missing[0];
        return fail(
            format!("enum:missing:{}{}", sem.name(), if *reach { "" } else { ":immortal_garbage" }),
            format!("enumerate_objects did not visit surviving object id {} ({}, {} B, {}) at {:#x}; {} of {} survivors missing", id, sem.name(), size, if *reach { "reachable" } else { "unreachable in a never-collected space" }, a, missing.len(), n_expected),
        );
    }

    // ---- is_mmtk_object: Some exactly on the survivors
    let mut addrs: Vec<(&usize, &(u64, Sem, usize, bool))> = expect.iter().collect();
    addrs.sort_by_key(|(a, _)| **a);
    for (a, (id, sem, size, reach)) in addrs {
        let addr = unsafe { Address::from_usize(*a) };
        match catch(|| mmtk::memory_manager::is_mmtk_object(addr)) {
            Err(pm) => return fail(format!("valid:panic{}", panic_slug(&format!("{}:0: {}", crate::common::last_panic_location(), pm))), format!("is_mmtk_object({:#x}) panicked: {}", a, pm.lines().next().unwrap_or(""))),
            Ok(Some(o)) if o.to_raw_address() == addr => {}
            Ok(r) => {
                return fail(
                    format!("valid:survivor_rejected:{}{}", sem.name(), if *reach { "" } else { ":immortal_garbage" }),
                    format!("is_mmtk_object({:#x}) = {:?} for surviving object id {} ({}, {} B, {})", a, r, id, sem.name(), size, if *reach { "reachable" } else { "unreachable in a never-collected space" }),
                )
            }
        }
    }
    let mut dead_checked = 0u64;
    let mut reused = 0u64;
    for d in &dead {
        if expect.contains_key(&d.addr) {
            reused += 1;
            continue;
        }
        dead_checked += 1;
        let addr = unsafe { Address::from_usize(d.addr) };
        match catch(|| mmtk::memory_manager::is_mmtk_object(addr)) {
            Err(pm) => return fail(format!("valid:panic{}", panic_slug(&format!("{}:0: {}", crate::common::last_panic_location(), pm))), format!("is_mmtk_object({:#x}) panicked: {}", d.addr, pm.lines().next().unwrap_or(""))),
            Ok(None) => {}
            Ok(Some(o)) => {
                return fail(
                    format!("valid:dead_accepted:{}", d.sem.name()),
                    format!("is_mmtk_object({:#x}) = Some({}) but the object that lived there (id {}, {}, {} B, survived {} collection(s)) died and no survivor lives there after the exhaustive collection", d.addr, o, d.id, d.sem.name(), d.size, d.age),
                )
            }
        }
    }
    // the addresses that surviving objects were moved away from are no object references either
    let mut vacated_checked = 0u64;
    for v in &vacated {
        if expect.contains_key(&v.addr) {
            reused += 1;
            continue;
        }
        vacated_checked += 1;
        let addr = unsafe { Address::from_usize(v.addr) };
        match catch(|| mmtk::memory_manager::is_mmtk_object(addr)) {
            Err(pm) => return fail(format!("valid:panic{}", panic_slug(&format!("{}:0: {}", crate::common::last_panic_location(), pm))), format!("is_mmtk_object({:#x}) panicked: {}", v.addr, pm.lines().next().unwrap_or(""))),
            Ok(None) => {}
            Ok(Some(o)) => {
                return fail(
                    format!("valid:vacated_accepted:{}", v.sem.name()),
                    format!("is_mmtk_object({:#x}) = Some({}) but the object that lived there (id {}, {}, {} B) was moved away by a collection and no survivor lives there after the exhaustive collection", v.addr, o, v.id, v.sem.name(), v.size),
                )
            }
        }
    }
    let reachable = w.shadow.objs.len() as u64;
    count("c07_vacated_addresses_checked", vacated_checked);
    count("c07_checks", 1);
    count("c07_survivors_checked", n_expected as u64);
    count("c07_immortal_garbage_checked", w.shadow.immortal_garbage.len() as u64);
    count("c07_dead_addresses_checked", dead_checked);
    count("c07_dead_addresses_reused_by_survivor", reused);
    if reachable > 0 && dead_checked > 0 {
        count("c07_checks_with_reachable_and_dead", 1);
        PROG_LIVE_AND_DEAD.fetch_add(1, Ordering::SeqCst);
    }
    if dead.iter().any(|d| d.age > 0) {
        count("c07_checks_with_old_object_dying", 1);
    }
    Ok(())
}

pub const PROFILE: Profile = Profile {
    id: "C07",
    plans,
    variants,
    alphabet,
    depth,
    boot,
    owns,
    nontrivial,
    filter,
    rule: "every program of length <= depth over {alloc 40 B | 264 B | 80 KiB (-> LOS) into the lowest empty root, burst(264 B x150 (x24 under PageProtect and NoGC), keep every 2nd: dead and live objects share Immix lines / MarkSweep blocks / pages), write root.f0 <- root|null through the barrier, drop root, GC(normal/nursery), GC(exhaustive)} per plan (all 11 plans, incl. NoGC), plus a variant (own process, depth <= 4) over {alloc 48 B Default|Immortal, the same burst, write, drop, GC x2} containing an Immortal allocation (Compressor: without field writes); each program is followed by a closing exhaustive GC and a reset (drop all roots + exhaustive GC), programs run back to back on one real MMTK instance (1 GC worker). After EVERY exhaustive GC (in-program, closing, reset; under NoGC once per program): the addresses visited by MMTK::enumerate_objects, as a multiset, must equal the shadow survivors (reachable objects at their post-GC addresses + every unreachable object of a never-collected space), is_mmtk_object must be Some on each survivor and None on the last address of every object that died, and on every address a surviving object was moved away from, since the previous exhaustive GC, unless a survivor lives there now. distinct_nontrivial = programs in which such a check saw both a reachable survivor and a dead address",
    post: Some(post),
    timeout_s: |t| t.pick(300, 3000),
};

pub fn run(run: &mut Run) {
    crate::shadow_check::run(&PROFILE, run);
    if run.samples.is_empty() {
        // every process failed in its first program: the violating cases are the samples
        let cases: Vec<Value> = run.violations.iter().take(3).map(|v| v.case.clone()).collect();
        for c in cases {
            run.sample(c);
        }
    }
    run.assume("checked only after exhaustive collections (forced full-heap for generational plans; a user-requested ConcurrentImmix collection is a full stop-the-world pause): after a nursery collection old garbage legitimately stays valid");
    run.assume("no finalizer-resurrected objects (the programs register no finalizers); NonMoving semantics not used (known findings); one GC worker");
    run.assume("Immix spaces: with side mark bits the VO bits are copied from the mark bits when a block is swept (strategy CopyFromMarkBits), so a dead object in a retained line loses its VO bit too; the check demands that (strong reading), which the implementation documents in vo_bit/helper.rs");
}

pub fn replay(case: &Value, run: &mut Run) {
    crate::shadow_check::replay(&PROFILE, case, run);
}

pub fn child(args: &[String]) {
    crate::shadow_check::child(&PROFILE, args);
}
