//! C18 concurrent mark / log / pin transitions succeed exactly once (engine `baton`).
//!
//! 1–3 *racers* run the same real transition on ONE field (one object) while one more thread (the
//! *neighbour*) operates on a NEIGHBOURING field that shares the metadata byte (for 8-bit fields:
//! the adjacent byte).  Every interleaving of the threads at the armed metadata atomics is
//! executed (1–2 racers + neighbour: all interleavings; 3 racers: preemption bound 3).
//!
//! Families (what the racers call):
//! * `pin` / `unpin`      real `VMLocalPinningBitSpec::{pin_object, unpin_object}`; the neighbour
//!                        pins and unpins the neighbouring object / header bit with the same real
//!                        functions;
//! * `mark` / `mark_flipped` real `MarkState::test_and_mark::<UnitVM<P>>` (flipped: the in-header
//!                        mark state after `on_global_release`, i.e. marked == 0);
//! * `log`                real `ObjectBarrier::object_reference_write_post` (-> `object_is_unlogged`,
//!                        `object_reference_write_slow`, `log_object`) with a harness
//!                        `BarrierSemantics` that counts slow-path calls, one barrier per racer;
//! * `immix_mark`         `ImmixSpace::attempt_mark` needs a whole space: the metadata-level
//!                        operation it performs (same calls, same orderings) on the real
//!                        `LOCAL_MARK_BIT_SPEC`;
//! * `los`                `LargeObjectSpace::test_and_mark` needs a whole space: same calls, same
//!                        orderings on a real `VMLocalLOSMarkNurserySpec` (2 bits), for every legal
//!                        (nursery GC?, mark state, initial bits) combination;
//! * `raw4` / `raw8`      the load-then-compare_exchange loop on raw 4-bit / 8-bit side specs and an
//!                        8-bit header spec (widths no VM spec has).
//! For all but `pin`/`unpin` the neighbour does `store_atomic(max)` then `fetch_and(0)` on its field.
//!
//! Oracle (per execution, at quiescence): every thread finished (no deadlock, livelock, panic);
//! **exactly one racer observed the transition as its own**; the field holds the transitioned
//! state; the neighbour's operations returned what a sequential execution of the neighbour alone
//! returns and its field holds what it last stored; no other bit of the 16 bytes around changed
//! (the fields are decoded by an independent bit decoder, not through the code under test).

use crate::baton::{self, Arming, Config, End, ExecInfo, Scenario, Verdict};
use crate::common::{machinery_failure, Run, Tier};
use crate::props::c20::init_side_metadata;
use crate::unitvm::{self, UnitVM, ONE_BIT_OFFSETS, P_SIDE};
use crate::with_unit_vm;
use mmtk::util::metadata::header_metadata::HeaderMetadataSpec;
use mmtk::util::metadata::side_metadata::{verif_hooks, SideMetadataSpec};
use mmtk::util::metadata::MetadataSpec;
use mmtk::util::verif::c18::{Barrier, BarrierSemantics, MarkState, ObjectBarrier};
use mmtk::util::{Address, ObjectReference};
use mmtk::vm::*;
use serde_json::{json, Value};
use std::sync::atomic::Ordering::SeqCst;
use std::sync::atomic::{AtomicI64, AtomicUsize};
use std::sync::{Arc, Once};

// ---------------------------------------------------------------------------------------------
// scratch memory: 16 windows of 64 KiB at a fixed low address, one per exploration job

pub const OBJ_BASE: usize = 0x50_0000;
pub const WINDOW: usize = 0x1_0000;
pub const NWINDOWS: usize = 16;
/// Data addresses of the (never touched) "large objects" whose LOS side metadata (2 bits per page)
/// is used: 1 MiB per window, so that the metadata of two windows is 64 bytes apart.
pub const LOS_BASE: usize = 0x1000_0000;
pub const LOS_WINDOW: usize = 0x10_0000;

static SCRATCH: Once = Once::new();

pub fn raw_side_spec(log_bits: usize) -> SideMetadataSpec {
    SideMetadataSpec { name: "verif-c18-raw", is_global: true, offset: 0, log_num_of_bits: log_bits, log_bytes_in_region: 3 }
}

fn side_of(m: &MetadataSpec) -> SideMetadataSpec {
    match m {
        MetadataSpec::OnSide(s) => *s,
        MetadataSpec::InHeader(_) => machinery_failure("expected a side spec"),
    }
}

pub fn side_mark() -> SideMetadataSpec {
    side_of(<UnitVM<16> as ObjectModel<UnitVM<16>>>::LOCAL_MARK_BIT_SPEC.as_spec())
}
pub fn side_log() -> SideMetadataSpec {
    side_of(<UnitVM<16> as ObjectModel<UnitVM<16>>>::GLOBAL_LOG_BIT_SPEC.as_spec())
}
pub fn side_pin() -> SideMetadataSpec {
    side_of(<UnitVM<16> as ObjectModel<UnitVM<16>>>::LOCAL_PINNING_BIT_SPEC.as_spec())
}
pub fn side_los() -> SideMetadataSpec {
    side_of(<UnitVM<16> as ObjectModel<UnitVM<16>>>::LOCAL_LOS_MARK_NURSERY_SPEC.as_spec())
}
pub fn side_fwd_bits() -> SideMetadataSpec {
    side_of(<UnitVM<106> as ObjectModel<UnitVM<106>>>::LOCAL_FORWARDING_BITS_SPEC.as_spec())
}
pub fn side_fwd_ptr() -> SideMetadataSpec {
    side_of(<UnitVM<106> as ObjectModel<UnitVM<106>>>::LOCAL_FORWARDING_POINTER_SPEC.as_spec())
}

/// Map the scratch windows and the side metadata of every spec the unit checks use.
pub fn init_scratch() {
    init_side_metadata();
    SCRATCH.call_once(|| {
        let bytes = WINDOW * NWINDOWS;
        let p = unsafe { libc::mmap(OBJ_BASE as *mut libc::c_void, bytes, libc::PROT_READ | libc::PROT_WRITE, libc::MAP_PRIVATE | libc::MAP_ANONYMOUS | libc::MAP_FIXED_NOREPLACE, -1, 0) };
        if p as usize != OBJ_BASE {
            machinery_failure("cannot map the scratch object window at its fixed address");
        }
        let start = unsafe { Address::from_usize(OBJ_BASE) };
        let global = [side_log(), raw_side_spec(2), raw_side_spec(3)];
        let local = [side_mark(), side_pin(), side_los(), side_fwd_bits(), side_fwd_ptr()];
        for s in global.iter().chain(local.iter()) {
            // one spec at a time: several of them deliberately share offsets (see unitvm.rs)
            let (g, l): (Vec<SideMetadataSpec>, Vec<SideMetadataSpec>) = if s.is_global { (vec![*s], vec![]) } else { (vec![], vec![*s]) };
            if !verif_hooks::map_metadata(&g, &l, start, bytes) {
                machinery_failure(&format!("cannot map side metadata of {:?} for the scratch window", s));
            }
        }
        if !verif_hooks::map_metadata(&[], &[side_los()], unsafe { Address::from_usize(LOS_BASE) }, LOS_WINDOW * NWINDOWS) {
            machinery_failure("cannot map the LOS side metadata of the scratch large-object addresses");
        }
        // the metadata bytes used by different (spec, window) pairs must be pairwise disjoint:
        // concurrently explored scenarios must not see each other
        let mut used: Vec<(usize, usize, String)> = vec![];
        for w in 0..NWINDOWS {
            for s in global.iter().chain(local.iter()) {
                let (lo, hi) = if s.log_bytes_in_region == 12 {
                    (LOS_BASE + w * LOS_WINDOW + 0x4_0000, LOS_BASE + w * LOS_WINDOW + 0x4_0000 + 4 * 4096)
                } else {
                    (OBJ_BASE + w * WINDOW + 0x2000, OBJ_BASE + w * WINDOW + 0x2000 + 0x100)
                };
                let a = side_loc(s, unsafe { Address::from_usize(lo) }).byte.as_usize() - 8;
                let b = side_loc(s, unsafe { Address::from_usize(hi) }).byte.as_usize() + 16;
                used.push((a, b, format!("{}[{}]@{}", s.name, s.log_num_of_bits, w)));
            }
        }
        for i in 0..used.len() {
            for j in i + 1..used.len() {
                if used[i].0 < used[j].1 && used[j].0 < used[i].1 {
                    machinery_failure(&format!("scratch side metadata of {} and {} overlap", used[i].2, used[j].2));
                }
            }
        }
    });
}

// ---------------------------------------------------------------------------------------------
// fields: where they live (independent of the code under test) and how the threads access them

#[derive(Clone, Copy, Debug)]
pub struct Loc {
    pub byte: Address,
    pub shift: u32,
    pub bits: u32,
}

impl Loc {
    pub fn max(&self) -> u8 {
        ((1u16 << self.bits) - 1) as u8
    }
    pub fn get(&self) -> u8 {
        let b = unsafe { std::ptr::read_volatile(self.byte.to_ptr::<u8>()) };
        (b >> self.shift) & self.max()
    }
    pub fn set(&self, v: u8) {
        let p = self.byte.to_mut_ptr::<u8>();
        let m = self.max() << self.shift;
        unsafe { std::ptr::write_volatile(p, (std::ptr::read_volatile(p) & !m) | ((v << self.shift) & m)) };
    }
    pub fn mask(&self) -> u8 {
        self.max() << self.shift
    }
}

pub fn side_loc(spec: &SideMetadataSpec, data: Address) -> Loc {
    let (base, _) = verif_hooks::reserved_range();
    let region = data.as_usize() >> spec.log_bytes_in_region;
    let bit = region << spec.log_num_of_bits;
    Loc { byte: base + spec.offset + (bit >> 3), shift: (bit & 7) as u32, bits: 1 << spec.log_num_of_bits }
}

pub fn header_loc(spec: &HeaderMetadataSpec, header: Address) -> Loc {
    Loc { byte: header + spec.bit_offset.div_euclid(8), shift: spec.bit_offset.rem_euclid(8) as u32, bits: spec.num_of_bits as u32 }
}

/// A field accessed through the real spec-level API.
#[derive(Clone, Copy, Debug)]
pub enum Acc {
    Hdr { spec: HeaderMetadataSpec, obj: Address },
    Side { spec: SideMetadataSpec, data: Address },
}

impl Acc {
    pub fn loc(&self) -> Loc {
        match self {
            Acc::Hdr { spec, obj } => header_loc(spec, *obj),
            Acc::Side { spec, data } => side_loc(spec, *data),
        }
    }
    pub fn object(&self) -> ObjectReference {
        let a = match self {
            Acc::Hdr { obj, .. } => *obj,
            Acc::Side { data, .. } => *data,
        };
        ObjectReference::from_raw_address(a).unwrap()
    }
    pub fn as_metadata_spec(&self) -> MetadataSpec {
        match self {
            Acc::Hdr { spec, .. } => MetadataSpec::InHeader(*spec),
            Acc::Side { spec, .. } => MetadataSpec::OnSide(*spec),
        }
    }
    fn store_atomic(&self, v: u8) {
        match self {
            Acc::Hdr { spec, obj } => spec.store_atomic::<u8>(*obj, v, None, SeqCst),
            Acc::Side { spec, data } => spec.store_atomic::<u8>(*data, v, SeqCst),
        }
    }
    fn fetch_and(&self, v: u8) -> u8 {
        match self {
            Acc::Hdr { spec, obj } => spec.fetch_and::<u8>(*obj, v, SeqCst),
            Acc::Side { spec, data } => spec.fetch_and_atomic::<u8>(*data, v, SeqCst),
        }
    }
}

// ---------------------------------------------------------------------------------------------
// parameters

#[derive(Clone, Copy, Debug, PartialEq, Eq)]
pub enum Family {
    Pin,
    Unpin,
    Mark,
    MarkFlipped,
    Log,
    ImmixMark,
    Los { nursery_gc: bool, v: u8, init: u8 },
    Raw { bits: u8 },
}

impl Family {
    fn name(&self) -> String {
        match self {
            Family::Pin => "pin_object".into(),
            Family::Unpin => "unpin_object".into(),
            Family::Mark => "MarkState::test_and_mark".into(),
            Family::MarkFlipped => "MarkState::test_and_mark(flipped)".into(),
            Family::Log => "ObjectBarrier::log_object".into(),
            Family::ImmixMark => "ImmixSpace::attempt_mark(replica)".into(),
            Family::Los { .. } => "LargeObjectSpace::test_and_mark(replica)".into(),
            Family::Raw { bits } => format!("raw{}bit-test-and-set", bits),
        }
    }
    fn bits(&self) -> u32 {
        match self {
            Family::Los { .. } => 2,
            Family::Raw { bits } => *bits as u32,
            _ => 1,
        }
    }
    /// (initial value, transitioned value) of the contended field
    fn values(&self) -> (u8, u8) {
        match self {
            Family::Pin | Family::Mark | Family::ImmixMark => (0, 1),
            Family::Unpin | Family::MarkFlipped | Family::Log => (1, 0),
            Family::Los { v, init, .. } => (*init, *v),
            Family::Raw { bits: 4 } => (0x5, 0xA),
            Family::Raw { .. } => (0x5A, 0xA5),
        }
    }
}

#[derive(Clone, Copy, Debug, PartialEq, Eq)]
pub enum Place {
    /// In-header at this bit offset.
    Header { off: isize },
    /// On side; `pos` = index of the field inside its metadata byte (8-bit fields: 0).
    Side { pos: usize },
}

#[derive(Clone, Debug)]
pub struct Params {
    pub family: Family,
    pub place: Place,
    pub racers: usize,
    /// neighbour field: +1 = the next field in the byte (cyclic), -1 = the previous one
    pub nb_dir: i32,
    /// background of the surrounding metadata / header bytes
    pub bg: u8,
    pub bound: Option<u32>,
}

fn params_json(p: &Params) -> Value {
    let fam = match p.family {
        Family::Pin => json!({"f": "pin"}),
        Family::Unpin => json!({"f": "unpin"}),
        Family::Mark => json!({"f": "mark"}),
        Family::MarkFlipped => json!({"f": "mark_flipped"}),
        Family::Log => json!({"f": "log"}),
        Family::ImmixMark => json!({"f": "immix_mark"}),
        Family::Los { nursery_gc, v, init } => json!({"f": "los", "nursery_gc": nursery_gc, "v": v, "init": init}),
        Family::Raw { bits } => json!({"f": "raw", "bits": bits}),
    };
    let place = match p.place {
        Place::Header { off } => json!({"header_bit_offset": off}),
        Place::Side { pos } => json!({"side_field_in_byte": pos}),
    };
    json!({"family": fam, "place": place, "racers": p.racers, "nb_dir": p.nb_dir, "bg": p.bg, "bound": p.bound})
}

fn params_from_json(v: &Value) -> Params {
    let f = &v["family"];
    let family = match f["f"].as_str().unwrap_or("") {
        "pin" => Family::Pin,
        "unpin" => Family::Unpin,
        "mark" => Family::Mark,
        "mark_flipped" => Family::MarkFlipped,
        "log" => Family::Log,
        "immix_mark" => Family::ImmixMark,
        "los" => Family::Los { nursery_gc: f["nursery_gc"].as_bool().unwrap(), v: f["v"].as_u64().unwrap() as u8, init: f["init"].as_u64().unwrap() as u8 },
        "raw" => Family::Raw { bits: f["bits"].as_u64().unwrap() as u8 },
        other => machinery_failure(&format!("C18 replay: unknown family {}", other)),
    };
    let place = if let Some(o) = v["place"]["header_bit_offset"].as_i64() { Place::Header { off: o as isize } } else { Place::Side { pos: v["place"]["side_field_in_byte"].as_u64().unwrap() as usize } };
    Params { family, place, racers: v["racers"].as_u64().unwrap() as usize, nb_dir: v["nb_dir"].as_i64().unwrap() as i32, bg: v["bg"].as_u64().unwrap() as u8, bound: v["bound"].as_u64().map(|b| b as u32) }
}

// ---------------------------------------------------------------------------------------------
// the log-bit barrier semantics of the harness

struct CountingSemantics<const P: usize> {
    slow_calls: Arc<AtomicUsize>,
}

impl<const P: usize> BarrierSemantics for CountingSemantics<P> {
    type VM = UnitVM<P>;
    fn flush(&mut self) {}
    fn object_reference_write_slow(&mut self, _src: ObjectReference, _slot: Address, _target: Option<ObjectReference>) {
        self.slow_calls.fetch_add(1, SeqCst);
    }
    fn memory_region_copy_slow(&mut self, _src: std::ops::Range<Address>, _dst: std::ops::Range<Address>) {}
}

fn log_via_barrier<const P: usize>(obj: ObjectReference) -> bool {
    let calls = Arc::new(AtomicUsize::new(0));
    let mut barrier = ObjectBarrier::new(CountingSemantics::<P> { slow_calls: calls.clone() });
    // the slot is never dereferenced by the object barrier's post-write path
    barrier.object_reference_write_post(obj, obj.to_raw_address() + 8usize, None);
    match calls.load(SeqCst) {
        0 => false,
        1 => true,
        n => panic!("slow path called {} times by one barrier invocation", n),
    }
}

// ---------------------------------------------------------------------------------------------
// replicas of the two transition functions that need a whole space (same calls, same orderings)

/// `ImmixSpace::attempt_mark(object, mark_state)`
pub fn immix_attempt_mark<VM: VMBinding>(object: ObjectReference, mark_state: u8) -> bool {
    loop {
        let old_value = VM::VMObjectModel::LOCAL_MARK_BIT_SPEC.load_atomic::<VM, u8>(object, None, SeqCst);
        if old_value == mark_state {
            return false;
        }
        if VM::VMObjectModel::LOCAL_MARK_BIT_SPEC.compare_exchange_metadata::<VM, u8>(object, old_value, mark_state, None, SeqCst, SeqCst).is_ok() {
            break;
        }
    }
    true
}

const LOS_MARK_BIT: u8 = 0b01;
const LOS_BIT_MASK: u8 = 0b11;

/// `LargeObjectSpace::test_and_mark(object, value)` with `self.in_nursery_gc` as a parameter.
fn los_test_and_mark<VM: VMBinding>(spec: &MetadataSpec, object: ObjectReference, value: u8, in_nursery_gc: bool) -> bool {
    loop {
        let mask = if in_nursery_gc { LOS_BIT_MASK } else { LOS_MARK_BIT };
        let old_value = spec.load_atomic::<VM, u8>(object, None, SeqCst);
        let mark_bit = old_value & mask;
        if mark_bit == value {
            return false;
        }
        if spec.compare_exchange_metadata::<VM, u8>(object, old_value, old_value & !LOS_BIT_MASK | value, None, SeqCst, SeqCst).is_ok() {
            break;
        }
    }
    true
}

/// The same load-then-compare_exchange loop on a spec of any width.
fn raw_test_and_set<VM: VMBinding>(spec: &MetadataSpec, object: ObjectReference, target: u8) -> bool {
    loop {
        let old_value = spec.load_atomic::<VM, u8>(object, None, SeqCst);
        if old_value == target {
            return false;
        }
        if spec.compare_exchange_metadata::<VM, u8>(object, old_value, target, None, SeqCst, SeqCst).is_ok() {
            break;
        }
    }
    true
}

// ---------------------------------------------------------------------------------------------
// the scenario

pub struct Sc {
    p: Params,
    x: Acc,
    y: Acc,
    /// placement number of the UnitVM whose one-bit specs are where `x` is
    vm_p: usize,
    /// per racer: 0 = no result, 1 = false, 2 = true
    results: [AtomicI64; 4],
    /// neighbour: return values of its two operations (-1 = none)
    nb: [AtomicI64; 2],
    canary: (Address, usize),
}

impl Sc {
    pub fn new(p: Params, window: usize) -> Sc {
        init_scratch();
        assert!(window < NWINDOWS);
        let wbase = unsafe { Address::from_usize(OBJ_BASE + window * WINDOW) };
        let bits = p.family.bits();
        let (x, y, vm_p) = match p.place {
            Place::Header { off } => {
                let obj = wbase + 0x8040usize;
                let xs = HeaderMetadataSpec { bit_offset: off, num_of_bits: bits as usize };
                let ys = if bits == 8 {
                    HeaderMetadataSpec { bit_offset: off + 8 * p.nb_dir as isize, num_of_bits: 8 }
                } else {
                    // a field of the same width elsewhere in the same byte
                    let byte_start = off.div_euclid(8) * 8;
                    let shift = off.rem_euclid(8);
                    let w = bits as isize;
                    let nshift = if p.nb_dir > 0 {
                        if shift + 2 * w <= 8 {
                            shift + w
                        } else {
                            0
                        }
                    } else if shift - w >= 0 {
                        shift - w
                    } else {
                        8 - w
                    };
                    assert!(nshift + w <= shift || nshift >= shift + w, "neighbour overlaps");
                    HeaderMetadataSpec { bit_offset: byte_start + nshift, num_of_bits: bits as usize }
                };
                let vm_p = if bits == 1 { ONE_BIT_OFFSETS.iter().position(|o| *o == off).unwrap_or(0) } else { P_SIDE };
                (Acc::Hdr { spec: xs, obj }, Acc::Hdr { spec: ys, obj }, vm_p)
            }
            Place::Side { pos } => {
                let spec = match p.family {
                    Family::Pin | Family::Unpin => side_pin(),
                    Family::Mark | Family::MarkFlipped | Family::ImmixMark => side_mark(),
                    Family::Log => side_log(),
                    Family::Los { .. } => side_los(),
                    Family::Raw { bits: 4 } => raw_side_spec(2),
                    Family::Raw { .. } => raw_side_spec(3),
                };
                let region = 1usize << spec.log_bytes_in_region;
                // side-only fields: 8-byte regions live in the object window (+0x2000, so that the
                // canary bytes before the metadata byte are mapped too), page regions in the LOS area
                let wbase = if spec.log_bytes_in_region == 12 { unsafe { Address::from_usize(LOS_BASE + window * LOS_WINDOW + 0x4_0000) } } else { wbase + 0x2000usize };
                let per_byte = (8 >> spec.log_num_of_bits).max(1);
                let xi = pos;
                let yi = if per_byte == 1 { (pos as i32 + 1 + p.nb_dir).max(0) as usize } else { ((pos as i32 + p.nb_dir).rem_euclid(per_byte as i32)) as usize };
                // 8-bit fields: x is the middle one of three bytes
                let xi = if per_byte == 1 { xi + 1 } else { xi };
                (Acc::Side { spec, data: wbase + xi * region }, Acc::Side { spec, data: wbase + yi * region }, P_SIDE)
            }
        };
        let xl = x.loc();
        let yl = y.loc();
        if bits < 8 && xl.byte != yl.byte {
            machinery_failure(&format!("C18: fields do not share a byte: {:?} {:?}", xl, yl));
        }
        if xl.byte == yl.byte && xl.mask() & yl.mask() != 0 {
            machinery_failure("C18: fields overlap");
        }
        let lo = if xl.byte < yl.byte { xl.byte } else { yl.byte };
        let canary = (lo - 8usize, 24usize);
        Sc { p, x, y, vm_p, results: Default::default(), nb: Default::default(), canary }
    }

    fn racer(&self) -> bool {
        let obj = self.x.object();
        match self.p.family {
            Family::Pin | Family::Unpin => {
                let spec = match self.p.place {
                    Place::Header { off } => VMLocalPinningBitSpec::in_header(off),
                    Place::Side { .. } => <UnitVM<16> as ObjectModel<UnitVM<16>>>::LOCAL_PINNING_BIT_SPEC,
                };
                if self.p.family == Family::Pin {
                    spec.pin_object::<UnitVM<16>>(obj)
                } else {
                    spec.unpin_object::<UnitVM<16>>(obj)
                }
            }
            Family::Mark => with_unit_vm!(self.vm_p, VM, MarkState::new().test_and_mark::<VM>(obj)),
            Family::MarkFlipped => with_unit_vm!(self.vm_p, VM, {
                let mut ms = MarkState::new();
                ms.on_global_release::<VM>();
                ms.test_and_mark::<VM>(obj)
            }),
            Family::ImmixMark => with_unit_vm!(self.vm_p, VM, immix_attempt_mark::<VM>(obj, 1)),
            Family::Log => match self.vm_p {
                0 => log_via_barrier::<0>(obj),
                1 => log_via_barrier::<1>(obj),
                2 => log_via_barrier::<2>(obj),
                3 => log_via_barrier::<3>(obj),
                4 => log_via_barrier::<4>(obj),
                5 => log_via_barrier::<5>(obj),
                6 => log_via_barrier::<6>(obj),
                7 => log_via_barrier::<7>(obj),
                8 => log_via_barrier::<8>(obj),
                9 => log_via_barrier::<9>(obj),
                10 => log_via_barrier::<10>(obj),
                11 => log_via_barrier::<11>(obj),
                12 => log_via_barrier::<12>(obj),
                13 => log_via_barrier::<13>(obj),
                14 => log_via_barrier::<14>(obj),
                15 => log_via_barrier::<15>(obj),
                _ => log_via_barrier::<16>(obj),
            },
            Family::Los { nursery_gc, v, .. } => {
                let spec = match self.p.place {
                    Place::Header { off } => *VMLocalLOSMarkNurserySpec::in_header(off).as_spec(),
                    Place::Side { .. } => *<UnitVM<16> as ObjectModel<UnitVM<16>>>::LOCAL_LOS_MARK_NURSERY_SPEC.as_spec(),
                };
                los_test_and_mark::<UnitVM<16>>(&spec, obj, v, nursery_gc)
            }
            Family::Raw { .. } => raw_test_and_set::<UnitVM<16>>(&self.x.as_metadata_spec(), obj, self.p.family.values().1),
        }
    }

    fn neighbour(&self) {
        match self.p.family {
            Family::Pin | Family::Unpin => {
                let (spec, obj) = match self.y {
                    Acc::Hdr { spec, obj } => (VMLocalPinningBitSpec::in_header(spec.bit_offset), obj),
                    Acc::Side { data, .. } => (<UnitVM<16> as ObjectModel<UnitVM<16>>>::LOCAL_PINNING_BIT_SPEC, data),
                };
                let o = ObjectReference::from_raw_address(obj).unwrap();
                self.nb[0].store(spec.pin_object::<UnitVM<16>>(o) as i64, SeqCst);
                self.nb[1].store(spec.unpin_object::<UnitVM<16>>(o) as i64, SeqCst);
            }
            _ => {
                let max = self.y.loc().max();
                self.y.store_atomic(max);
                self.nb[0].store(max as i64, SeqCst);
                self.nb[1].store(self.y.fetch_and(0) as i64, SeqCst);
            }
        }
    }

    fn class(&self) -> &'static str {
        match self.p.place {
            Place::Header { .. } => "header",
            Place::Side { .. } => "side",
        }
    }

    fn background_byte(&self, a: Address) -> u8 {
        // expected content of a canary byte without the two fields
        let _ = a;
        self.p.bg
    }
}

impl Scenario for Sc {
    fn name(&self) -> String {
        format!("C18/{}/{:?}/racers={}", self.p.family.name(), self.p.place, self.p.racers)
    }
    fn params(&self) -> Value {
        params_json(&self.p)
    }
    fn threads(&self) -> usize {
        self.p.racers + 1
    }
    fn setup(&self, arming: &mut Arming) {
        let (c, n) = self.canary;
        for k in 0..n {
            unsafe { std::ptr::write_volatile((c + k).to_mut_ptr::<u8>(), self.p.bg) };
        }
        self.x.loc().set(self.p.family.values().0);
        self.y.loc().set(0);
        for r in &self.results {
            r.store(0, SeqCst);
        }
        for r in &self.nb {
            r.store(-1, SeqCst);
        }
        arming.range(c.as_usize(), c.as_usize() + n);
    }
    fn body(&self, tid: usize) {
        if tid < self.p.racers {
            let r = self.racer();
            self.results[tid].store(if r { 2 } else { 1 }, SeqCst);
        } else {
            self.neighbour();
        }
    }
    fn check(&self, info: &ExecInfo) -> Verdict {
        let fam = self.p.family.name();
        let sig = |clause: &str| format!("{}:{}:{}", clause, fam, self.class());
        let res: Vec<i64> = (0..self.p.racers).map(|i| self.results[i].load(SeqCst)).collect();
        let winners: Vec<usize> = (0..self.p.racers).filter(|i| res[*i] == 2).collect();
        let nb = [self.nb[0].load(SeqCst), self.nb[1].load(SeqCst)];
        let (init, target) = self.p.family.values();
        let xv = self.x.loc().get();
        let yv = self.y.loc().get();
        let (c, n) = self.canary;
        let lo = c.as_usize();
        let all: Vec<u8> = (0..=self.p.racers as u8).collect();
        let nontrivial = info.interleaved_on(lo, lo + n, &all);
        let outcome = format!("{}:winner={:?}:nb={:?}", info.end.name(), winners, nb);
        let mut violation = None;
        if info.end != End::Complete {
            violation = Some((sig("no-termination"), format!("execution ended with {:?}", info.end)));
        } else if let Some((t, m)) = info.panics.iter().enumerate().find_map(|(t, p)| p.as_ref().map(|m| (t, m.clone()))) {
            violation = Some((sig("panic"), format!("thread {} panicked: {}", t, m)));
        } else if winners.is_empty() {
            violation = Some((sig("spurious-failure"), format!("no racer observed the transition {}->{} as its own (results {:?}); the field holds {}", init, target, res, xv)));
        } else if winners.len() > 1 {
            violation = Some((sig("double-success"), format!("racers {:?} all observed the transition {}->{} as their own", winners, init, target)));
        } else if xv != target {
            violation = Some((sig("final-state"), format!("the field holds {} after the transition to {}", xv, target)));
        } else {
            // neighbour: sequential expectation
            let (want, want_final): ([i64; 2], u8) = match self.p.family {
                Family::Pin | Family::Unpin => ([1, 1], 0),
                _ => ([self.y.loc().max() as i64, self.y.loc().max() as i64], 0),
            };
            if nb != want {
                if matches!(self.p.family, Family::Pin | Family::Unpin) {
                    violation = Some((sig("spurious-failure"), format!("the neighbour thread's pin_object / unpin_object of the neighbouring object returned {:?} (1 = true) although no other thread touches that object; alone they return {:?}", nb, want)));
                } else {
                    violation = Some((sig("neighbour-return-value"), format!("the neighbour's operations returned {:?}, alone they return {:?}", nb, want)));
                }
            } else if yv != want_final {
                violation = Some((sig("neighbour-lost-write"), format!("the neighbouring field holds {} but its owner last stored {}", yv, want_final)));
            } else {
                // nothing else changed
                let xl = self.x.loc();
                let yl = self.y.loc();
                for k in 0..n {
                    let a = c + k;
                    let mut fieldmask = 0u8;
                    if a == xl.byte {
                        fieldmask |= if xl.bits == 8 { 0xff } else { xl.mask() };
                    }
                    if a == yl.byte {
                        fieldmask |= if yl.bits == 8 { 0xff } else { yl.mask() };
                    }
                    let b = unsafe { std::ptr::read_volatile(a.to_ptr::<u8>()) };
                    if (b ^ self.background_byte(a)) & !fieldmask != 0 {
                        violation = Some((sig("stray-write"), format!("byte {:+} relative to the contended byte holds {:#04x}: bits outside the two fields changed (background {:#04x})", a.as_usize() as isize - xl.byte.as_usize() as isize, b, self.p.bg)));
                        break;
                    }
                }
            }
        }
        Verdict { outcome, violation, nontrivial }
    }
    fn min_outcomes(&self) -> usize {
        // with two or more racers each of them must be seen winning
        self.p.racers.max(1)
    }
}

// ---------------------------------------------------------------------------------------------
// enumeration

/// Placements on which the 2-racer scenarios are explored deeper (thorough: exhaustively).
fn representative(place: &Place) -> bool {
    matches!(place, Place::Header { off: 0 } | Place::Header { off: -1 } | Place::Side { pos: 0 } | Place::Side { pos: 3 })
}

fn configs(tier: Tier) -> Vec<Params> {
    let thorough = tier == Tier::Thorough;
    let mut v = vec![];
    let hdr1: Vec<isize> = if thorough { ONE_BIT_OFFSETS.to_vec() } else { vec![0, 3, 7, -1, -8] };
    let side1: Vec<usize> = if thorough { (0..8).collect() } else { vec![0, 3, 7] };
    let dirs: &[i32] = if thorough { &[1, -1] } else { &[1] };
    // 1 racer + neighbour: every interleaving, everywhere.
    // 2 racers + neighbour: the schedule tree has the same shape on every placement of a family
    // (~10^5 executions, up to 18 preemptions); it is explored exhaustively on the representative
    // placements in the thorough tier and up to a preemption bound elsewhere.
    let mut push = |family: Family, place: Place, nb_dir: i32| {
        let k = v.len();
        let bg = if k % 2 == 0 { 0x00 } else { 0xA5 };
        let rep = representative(&place) && nb_dir == 1;
        let bound2 = match (thorough, rep) {
            // the retry loops of pin / unpin on both sides make their tree much larger
            (true, true) if matches!(family, Family::Pin | Family::Unpin) => Some(6),
            (true, true) => None,
            (true, false) => Some(4),
            (false, true) => Some(4),
            (false, false) => Some(3),
        };
        v.push(Params { family, place, racers: 1, nb_dir, bg, bound: None });
        v.push(Params { family, place, racers: 2, nb_dir, bg: bg ^ 0xff, bound: bound2 });
    };
    for fam in [Family::Pin, Family::Unpin, Family::Mark, Family::MarkFlipped, Family::Log, Family::ImmixMark] {
        for off in &hdr1 {
            for d in dirs {
                push(fam, Place::Header { off: *off }, *d);
            }
        }
        if fam != Family::MarkFlipped {
            // the side mark state never flips
            for pos in &side1 {
                for d in dirs {
                    push(fam, Place::Side { pos: *pos }, *d);
                }
            }
        }
    }
    // LOS: (nursery GC?, mark state, initial bits) as the space produces them
    let los = [(false, 0u8, 1u8), (false, 0, 3), (false, 1, 0), (false, 1, 2), (true, 0, 2), (true, 1, 3)];
    let los_hdr: Vec<isize> = if thorough { vec![0, 2, 4, 6, 1, 3, 5, -2, -4, -8, -7] } else { vec![0, 6, -8] };
    let los_side: Vec<usize> = if thorough { vec![0, 1, 2, 3] } else { vec![0, 3] };
    for (nursery_gc, val, init) in los {
        let fam = Family::Los { nursery_gc, v: val, init };
        for off in &los_hdr {
            push(fam, Place::Header { off: *off }, 1);
        }
        for pos in &los_side {
            push(fam, Place::Side { pos: *pos }, 1);
        }
    }
    // raw widths
    for pos in [0usize, 1] {
        push(Family::Raw { bits: 4 }, Place::Side { pos }, 1);
    }
    push(Family::Raw { bits: 4 }, Place::Header { off: 0 }, 1);
    push(Family::Raw { bits: 4 }, Place::Header { off: -4 }, 1);
    push(Family::Raw { bits: 8 }, Place::Side { pos: 0 }, 1);
    push(Family::Raw { bits: 8 }, Place::Side { pos: 0 }, -1);
    push(Family::Raw { bits: 8 }, Place::Header { off: 8 }, 1);
    push(Family::Raw { bits: 8 }, Place::Header { off: -8 }, -1);
    // three racers
    let b3 = Some(if thorough { 3 } else { 2 });
    let three: Vec<(Family, Place)> = vec![
        (Family::Mark, Place::Side { pos: 3 }),
        (Family::Mark, Place::Header { off: 0 }),
        (Family::Log, Place::Side { pos: 0 }),
        (Family::Pin, Place::Side { pos: 7 }),
        (Family::Unpin, Place::Header { off: -1 }),
        (Family::Los { nursery_gc: true, v: 1, init: 3 }, Place::Side { pos: 0 }),
        (Family::ImmixMark, Place::Side { pos: 0 }),
        (Family::Raw { bits: 4 }, Place::Side { pos: 1 }),
    ];
    for (family, place) in three {
        v.push(Params { family, place, racers: 3, nb_dir: 1, bg: 0xA5, bound: b3 });
    }
    v
}

pub fn run(run: &mut Run) {
    init_scratch();
    let cfgs = configs(run.tier);
    let jobs = run.jobs.min(NWINDOWS).min(8);
    let stats = baton::explore_many(run, cfgs.len(), jobs, |i, slot| {
        let p = cfgs[i].clone();
        let cfg = Config { bound: p.bound, max_executions: 3_000_000, ..Config::default() };
        (Sc::new(p, slot), cfg)
    });
    let mut all1 = true;
    let mut exhaustive2 = 0u64;
    let mut min2 = u32::MAX;
    let mut min3 = u32::MAX;
    for (p, st) in cfgs.iter().zip(stats.iter()) {
        if st.violations > 0 {
            continue;
        }
        match p.racers {
            1 => all1 &= st.unbounded_complete,
            2 => {
                if st.unbounded_complete {
                    exhaustive2 += 1;
                } else {
                    min2 = min2.min(st.completed_bound.unwrap_or(0));
                }
            }
            _ => min3 = min3.min(st.completed_bound.unwrap_or(0)),
        }
    }
    run.set("all_interleavings_explored_for_1_racer_plus_neighbour", all1);
    run.set("configurations_2_racers_with_all_interleavings_explored", exhaustive2);
    run.set("completed_preemption_bound_other_2_racer_configurations", if min2 == u32::MAX { 99 } else { min2 as u64 });
    run.set("completed_preemption_bound_3_racers", if min3 == u32::MAX { 0 } else { min3 as u64 });
    run.set("configurations", cfgs.len() as u64);
    run.set("vm_binding", "UnitVM<P> (unit level, no MMTK instance)");
    run.set("rule", "per (transition family, metadata placement [in-header bit offsets incl. negative; side field position in its byte], neighbour field, 1-3 racers, background 00/A5/5A/FF): every interleaving at the metadata atomics of the 16 bytes around the contended byte (3 racers: up to the stated preemption bound); oracle: exactly one racer's call reports the transition as its own, the field ends transitioned, the neighbour's return values and final value are those of its sequential execution, no other bit changed; non-trivial = an execution in which some thread was interleaved by another thread between two of its own atomics on the contended bytes");
    run.assume("sequentially consistent interleavings at the instrumented atomics only (engine baton); no weak-memory effects");
    run.assume("ImmixSpace::attempt_mark and LargeObjectSpace::test_and_mark need a whole space: their metadata-level operation (same calls, same orderings) is driven on the real specs instead");
    run.assume("ObjectBarrier::log_object is driven through the real object_reference_write_post of an ObjectBarrier with counting harness semantics, one barrier per racing thread, not through two GenImmix mutators");
}

pub fn replay(case: &Value, run: &mut Run) {
    init_scratch();
    let p = params_from_json(&case["params"]);
    let sc = Sc::new(p, 0);
    let (info, v) = baton::replay_case(&sc, case, 20_000, 64);
    eprintln!("trace: {}", info.pretty());
    eprintln!("outcome: {}", v.outcome);
    if let Some((sig, msg)) = v.violation {
        run.violation(sig, msg, case.clone());
    }
}

#[allow(dead_code)]
fn _unused() {
    let _ = unitvm::placement_name(0);
}
