//! C34 — Immix never hands out a line that holds a live object; line-mark epochs (including the
//! wrap-around after 127 full collections); block states round-trip through their byte encoding.
//!
//! Engine "model + conformance" (DESIGN.md 4.4):
//!
//! (i)   pure: all 256 bytes through `BlockState` decode -> encode, every state of the encoding's
//!       domain through encode -> decode, injectivity; and every state through the real
//!       `Block::set_state` / `get_state` on a real block.
//! (iv)  (listed here, run second) the real `Line::mark_lines_for_object` for every placement of
//!       an object relative to line boundaries (start at every word of two adjacent lines, sizes
//!       of 1 word .. 2 lines + 1 word) under two bindings of the `UnitVM` family: object
//!       reference = object start, and object reference = object start + 8 (header word before
//!       the reference): every line the object's extent touches must carry the current mark.
//! (ii)  an explicit-state model of ONE tracked line ("component"): (line_mark_state,
//!       line_unavail_state, the line's mark byte, occupancy); per collection the choice
//!       kind in {full, nursery (StickyImmix)} x {dead, live, live+pinned}.  BFS to closure
//!       (exact mark bytes, so the state carries the epoch in which the line was last marked);
//!       model invariants: a line holding a live object is never offered by hole search, a line
//!       holding none always is.  The tracked block is the product of K = 5 such components that
//!       share the epoch counters (they do not interact in the model).
//! (iii) conformance: a tour covering every transition of the component model is replayed on a
//!       REAL Immix / StickyImmix instance through the shadowvm `World`: five tracked objects
//!       sit in known lines of one block (line 1 next to the always-live anchor in line 0,
//!       lines 3 and 4 adjacent to each other, a 256-byte object straddling lines 5/6, the last
//!       line of the block); each walks its own path through the component model.  After every
//!       real collection the mark bytes of all 128 lines of the block, both epoch counters, the
//!       block state and the result of the real `get_next_available_lines` over the block must
//!       equal the model (a mismatch that is not a property violation is *model drift*: exit 2),
//!       and the property clauses are asserted directly on the real heap for every live object of
//!       the shadow heap (violations).  All holes are then consumed by real allocations (every
//!       result goes through the World's overlap oracle).  After a drift the run continues for
//!       two more epoch cycles without the model (best effort) to see whether the disagreement
//!       grows into a violation of a property clause; only then is it reported as drift.
//!       Quick: the transitions whose source mark byte is a boundary epoch, shared by the five
//!       positions; thorough: every transition at EACH of the five positions.  Every run starts
//!       with a prologue in which each position is marked for the last time in one of the epochs
//!       MAX-2, MAX-1, MAX, MAX, RESET and then stays dead for more than a whole epoch cycle.
//!       Defragmenting collections move objects, so they run in separate "direct" processes that
//!       assert only the property clauses (plus: no copy made by a collection lands on an object
//!       that was live in it), also on GenImmix and ConcurrentImmix.

use crate::common::{catch, emit_child_result, last_panic_location, machinery_failure, run_children, Run, Tier};
use crate::shadowvm::{install_crash_handlers, set_current_case, worker_panic_to_crash, BootCfg, Sem, World};
use crate::vm::{VerifVM, VmEvent, RECORD_COPIES};
use mmtk::util::verif::c34 as hk;
use mmtk::util::linear_scan::Region;
use mmtk::util::{Address, ObjectReference};
use serde_json::{json, Value};
use std::collections::{BTreeMap, BTreeSet, VecDeque};

const LINE: usize = hk::LINE_BYTES;
const BLOCK: usize = hk::BLOCK_BYTES;
const LINES: usize = hk::LINES_IN_BLOCK;
const RESET: u8 = hk::RESET_MARK_STATE;
const MAXS: u8 = hk::MAX_MARK_STATE;

/// tracked positions of the tracked block
const K: usize = 5;
const STRADDLE: usize = 3;
/// (first line, last line) spanned by the object of tracked position `i`
fn pos_lines(i: usize) -> (usize, usize) {
    match i {
        0 => (1, 1),
        1 => (3, 3),
        2 => (4, 4),
        3 => (5, 6),
        _ => (LINES - 1, LINES - 1),
    }
}
fn pos_of_line(l: usize) -> Option<usize> {
    (0..K).find(|&i| pos_lines(i).0 <= l && l <= pos_lines(i).1)
}
const ANCHOR_SLOT: usize = 0;
const SCRATCH_SLOT: usize = 7;
fn slot_of(i: usize) -> usize {
    i + 1
}

// =============================================================================================
// (i) block state encoding

fn all_domain_states() -> Vec<hk::BlockState> {
    // The domain of the encoding: the three named states and Reusable{n} for every n that does
    // not collide with a named state's byte (0 = Unallocated, 254 = Marked, 255 = Unmarked).  The
    // sweep only constructs Reusable{n} with 1 <= n <= LINES - 1 (checked below to lie inside).
    let mut v = vec![hk::BlockState::Unallocated, hk::BlockState::Unmarked, hk::BlockState::Marked];
    for n in 1..=253u8 {
        v.push(hk::BlockState::Reusable { unavailable_lines: n });
    }
    v
}

fn part_blockstate(run: &mut Run) {
    let mut evals = 0u64;
    for b in 0..=255u8 {
        let r = catch(|| {
            let s = hk::block_state_decode(b);
            (s, hk::block_state_encode(s))
        });
        evals += 1;
        match r {
            Ok((s, e)) => {
                if e != b {
                    run.violation("blockstate:decode_encode", format!("byte {} decodes to {:?}, which encodes to {}", b, s, e), json!({"mode": "blockstate", "byte": b}));
                }
                let reusable = matches!(s, hk::BlockState::Reusable { .. });
                if s.is_reusable() != reusable {
                    run.violation("blockstate:is_reusable", format!("{:?}.is_reusable() is {}", s, s.is_reusable()), json!({"mode": "blockstate", "byte": b}));
                }
            }
            Err(p) => run.violation("blockstate:panic", format!("decoding/encoding byte {} panicked: {}", b, p), json!({"mode": "blockstate", "byte": b})),
        }
    }
    let states = all_domain_states();
    let mut seen: BTreeMap<u8, hk::BlockState> = BTreeMap::new();
    for s in &states {
        let e = hk::block_state_encode(*s);
        let d = hk::block_state_decode(e);
        evals += 1;
        if d != *s {
            run.violation("blockstate:encode_decode", format!("{:?} encodes to {} which decodes to {:?}", s, e, d), json!({"mode": "blockstate", "state": format!("{:?}", s)}));
        }
        if let Some(o) = seen.insert(e, *s) {
            run.violation("blockstate:not_injective", format!("{:?} and {:?} both encode to {}", o, s, e), json!({"mode": "blockstate", "state": format!("{:?}", s)}));
        }
    }
    if LINES - 1 > 253 {
        run.violation("blockstate:lines_exceed_encoding", format!("a block has {} lines: Reusable{{{}}} collides with a named state", LINES, LINES - 1), json!({"mode": "blockstate"}));
    }
    run.add("blockstate_bytes", 256);
    run.add("blockstate_states", states.len() as u64);
    run.add("evaluations", evals);
    run.sample(json!({"part": "blockstate", "byte": 7, "decoded": format!("{:?}", hk::block_state_decode(7)), "re_encoded": hk::block_state_encode(hk::block_state_decode(7))}));
}

// =============================================================================================
// (iv) line marking for every placement of an object relative to line boundaries, under a binding
// whose object reference is the object start (offset 0) and under one whose reference lies 8 bytes
// past it ("every line spanned by a live object is marked")

const LM_BASE: usize = 0x2_4000_0000; // block-aligned, metadata only: the data is never touched
const LM_LINES: usize = 8;

fn lm_run<VM: mmtk::vm::VMBinding>(run: &mut Run, binding: &str, off: usize, evals: &mut u64, nontrivial: &mut u64) {
    let lb = hk::LINE_BYTES;
    let sizes: Vec<usize> = (8..=lb + 24).step_by(8).chain([2 * lb - 8, 2 * lb, 2 * lb + 8]).collect();
    for state in [hk::RESET_MARK_STATE, hk::MAX_MARK_STATE] {
        // object starts: every word of lines 1 and 2 (so the object may begin in the last word
        // of a line, end exactly on a boundary, and span up to four lines)
        for start in (LM_BASE + lb..LM_BASE + 3 * lb).step_by(8) {
            for &size in &sizes {
                let lines: Vec<hk::Line> = (0..LM_LINES).map(|i| hk::Line::from_unaligned_address(unsafe { Address::from_usize(LM_BASE + i * lb) })).collect();
                let other = if state == hk::RESET_MARK_STATE { hk::MAX_MARK_STATE } else { state - 1 };
                for l in &lines {
                    l.mark(other);
                }
                crate::unitvm::UNIT_OBJECT_SIZE.with(|c| c.set(size));
                let object = ObjectReference::from_raw_address(unsafe { Address::from_usize(start + off) }).unwrap();
                let r = catch(|| hk::Line::mark_lines_for_object::<VM>(object, state));
                *evals += 1;
                let case = json!({"mode": "linemark", "binding": binding, "start": start - LM_BASE, "size": size, "state": state});
                if let Err(p) = r {
                    run.violation(format!("lines:mark_lines_for_object:panic:{}", binding), format!("mark_lines_for_object({} binding, object start = window + {}, size {}) panicked: {}", binding, start - LM_BASE, size, p), case);
                    return;
                }
                let first = (start - LM_BASE) / lb;
                let last = (start + size - 1 - LM_BASE) / lb;
                if (start + off - LM_BASE) / lb != first {
                    *nontrivial += 1;
                }
                for i in first..=last {
                    if !lines[i].is_marked(state) {
                        run.violation(
                            format!("lines:live_line_not_marked:{}:{}", binding, if i == first { "first_line" } else if i == last { "last_line" } else { "inner_line" }),
                            format!("Line::mark_lines_for_object::<{} binding> for the object [window + {}, window + {}) (reference at window + {}, {} bytes) left line {} of the window unmarked although the object spans lines {}..={}", binding, start - LM_BASE, start - LM_BASE + size, start + off - LM_BASE, size, i, first, last),
                            case,
                        );
                        return;
                    }
                }
            }
        }
    }
}

fn part_line_marking(run: &mut Run) {
    use mmtk::util::metadata::side_metadata::verif_hooks;
    static MAPPED: std::sync::Once = std::sync::Once::new();
    crate::props::c20::init_side_metadata();
    MAPPED.call_once(|| {
        if !verif_hooks::map_metadata(&[], &[hk::Line::MARK_TABLE], unsafe { Address::from_usize(LM_BASE) }, hk::BLOCK_BYTES) {
            machinery_failure("cannot map the line mark table for the line-marking window");
        }
    });
    let (mut evals, mut nontrivial) = (0u64, 0u64);
    lm_run::<crate::unitvm::UnitVM<{ crate::unitvm::P_SIZED }>>(run, "ref_offset0", 0, &mut evals, &mut nontrivial);
    lm_run::<crate::unitvm::UnitVM<{ crate::unitvm::P_REF_OFFSET }>>(run, "ref_offset8", crate::unitvm::REF_OFFSET, &mut evals, &mut nontrivial);
    run.add("evaluations", evals);
    run.add("line_marking_cases", evals);
    run.add("line_marking_cases_reference_in_another_line_than_object_start", nontrivial);
    run.sample(json!({"part": "linemark", "bindings": ["object reference = object start", "object reference = object start + 8"], "object_starts": "every word of two adjacent lines", "sizes": "8..=LINE+24 step 8, 2*LINE-8, 2*LINE, 2*LINE+8", "cases": evals, "reference_in_next_line": nontrivial}));
}

// =============================================================================================
// (ii) the component model

#[derive(Clone, Copy, PartialEq, Eq, Hash, Debug, PartialOrd, Ord)]
pub enum Occ {
    /// no live object (a dead filler, or nothing)
    Empty,
    /// a live object that has survived a collection in place (its line is marked)
    Old,
    /// StickyImmix: an old object that is no longer reachable but has not seen a full collection
    Retained,
}

#[derive(Clone, Copy, PartialEq, Eq, Hash, Debug, PartialOrd, Ord)]
pub enum Kind {
    Full,
    Nursery,
}

#[derive(Clone, Copy, PartialEq, Eq, Hash, Debug, PartialOrd, Ord)]
pub enum Want {
    /// nothing live in the line at this collection (drop the object / leave a dead filler)
    Dead,
    /// a live object at this collection (keep the old one, or allocate one into the hole)
    Live,
    /// allocate an object into the hole and pin it (nursery collections: it cannot be copied out)
    Pinned,
}

const KINDS: [Kind; 2] = [Kind::Full, Kind::Nursery];
const WANTS: [Want; 3] = [Want::Dead, Want::Live, Want::Pinned];

#[derive(Clone, Copy, PartialEq, Eq, Hash, Debug)]
pub struct Comp {
    pub lms: u8,
    pub unavail: u8,
    pub byte: u8,
    pub occ: Occ,
}

fn bump(lms: u8) -> u8 {
    if lms >= MAXS {
        RESET
    } else {
        lms + 1
    }
}
/// the sweep of a collection running with mark state `lms` zeroes the lines it finds unmarked
fn clears(lms: u8) -> bool {
    lms > MAXS - 2
}

impl Comp {
    const INIT: Comp = Comp { lms: RESET, unavail: RESET, byte: 0, occ: Occ::Empty };
    /// hole search offers a line iff its byte is neither the current nor the unavailable state
    fn available(&self) -> bool {
        self.byte != self.lms && self.byte != self.unavail
    }
    fn enabled(&self, k: Kind, w: Want) -> bool {
        match (self.occ, k, w) {
            (Occ::Old, _, Want::Dead) | (Occ::Old, _, Want::Live) => true,
            (Occ::Old, _, Want::Pinned) => false,
            (Occ::Retained, _, Want::Dead) => true,
            (Occ::Retained, _, _) => false,
            (Occ::Empty, _, Want::Dead) => true,
            (Occ::Empty, _, Want::Live) => self.available(),
            (Occ::Empty, Kind::Nursery, Want::Pinned) => self.available(),
            (Occ::Empty, Kind::Full, Want::Pinned) => false,
        }
    }
    fn step(&self, k: Kind, w: Want) -> Comp {
        debug_assert!(self.enabled(k, w));
        let mut n = *self;
        match k {
            Kind::Full => {
                n.lms = bump(self.lms);
                n.unavail = n.lms;
                let live = matches!((self.occ, w), (Occ::Old, Want::Live) | (Occ::Empty, Want::Live));
                if live {
                    n.byte = n.lms;
                    n.occ = Occ::Old;
                } else {
                    if clears(n.lms) {
                        n.byte = 0;
                    }
                    n.occ = Occ::Empty;
                }
            }
            Kind::Nursery => match (self.occ, w) {
                (Occ::Old, Want::Live) | (Occ::Retained, _) => {}
                (Occ::Old, _) => n.occ = Occ::Retained,
                (Occ::Empty, Want::Pinned) => {
                    n.byte = n.lms;
                    n.occ = Occ::Old;
                }
                (Occ::Empty, _) => {
                    // a live unpinned young object is copied out of the line
                    if clears(n.lms) {
                        n.byte = 0;
                    }
                }
            },
        }
        n
    }
    fn idx(&self) -> usize {
        ((self.lms as usize) * 256 + self.byte as usize) * 3 + self.occ as usize
    }
    fn json(&self) -> Value {
        json!({"lms": self.lms, "unavail": self.unavail, "byte": self.byte, "occ": format!("{:?}", self.occ)})
    }
}
const NSTATE: usize = 256 * 256 * 3;
fn tidx(c: &Comp, k: Kind, w: Want) -> usize {
    c.idx() * 6 + (k as usize) * 3 + w as usize
}

pub struct Graph {
    pub kinds: Vec<Kind>,
    pub states: Vec<Comp>,
    pub comp_at: Vec<Option<Comp>>,
    pub trans: Vec<(Comp, Kind, Want)>,
    pub max_depth: u64,
}

/// BFS to closure of the component model; checks the model invariants in every state.
fn explore(kinds: &[Kind]) -> Graph {
    let mut comp_at: Vec<Option<Comp>> = vec![None; NSTATE];
    let mut depth: Vec<u32> = vec![0; NSTATE];
    let mut states = vec![];
    let mut trans = vec![];
    let mut q = VecDeque::new();
    comp_at[Comp::INIT.idx()] = Some(Comp::INIT);
    q.push_back(Comp::INIT);
    let mut max_depth = 0;
    while let Some(c) = q.pop_front() {
        states.push(c);
        let d = depth[c.idx()];
        max_depth = max_depth.max(d as u64);
        // model invariants (the property, in the model)
        if c.lms < RESET || c.lms > MAXS || c.unavail != c.lms {
            machinery_failure(&format!("model invariant: epoch counters out of range in {:?}", c));
        }
        match c.occ {
            Occ::Old | Occ::Retained => {
                if c.available() {
                    machinery_failure(&format!("model invariant: a line holding a live/retained object is offered by hole search in {:?}", c));
                }
            }
            Occ::Empty => {
                if !c.available() {
                    machinery_failure(&format!("model invariant: a stale mark makes an empty line unavailable in {:?}", c));
                }
            }
        }
        for &k in kinds {
            for &w in &WANTS {
                if !c.enabled(k, w) {
                    continue;
                }
                trans.push((c, k, w));
                let n = c.step(k, w);
                if comp_at[n.idx()].is_none() {
                    comp_at[n.idx()] = Some(n);
                    depth[n.idx()] = d + 1;
                    q.push_back(n);
                } else if comp_at[n.idx()] != Some(n) {
                    machinery_failure("model: two states share a dense index");
                }
            }
        }
    }
    Graph { kinds: kinds.to_vec(), states, comp_at, trans, max_depth }
}

/// The model of the real hole search over a whole block's mark bytes.
fn model_holes(bytes: &[u8], lms: u8, unavail: u8) -> Vec<(usize, usize)> {
    let mut holes = vec![];
    let mut i = 0;
    while i < bytes.len() {
        if bytes[i] == lms || bytes[i] == unavail {
            i += 1;
            continue;
        }
        let s = i;
        while i < bytes.len() && bytes[i] != lms && bytes[i] != unavail {
            i += 1;
        }
        holes.push((s, i));
    }
    holes
}

// =============================================================================================
// the tour: K walkers on the component graph, one shared coverage set

#[derive(Clone, Copy, PartialEq, Eq, Debug)]
pub struct Scope {
    pub tier: Tier,
    pub shard: usize,
    pub nshards: usize,
}

/// Which transitions a child must cover.  Thorough: every transition (sharded over processes by
/// the source state's mark byte).  Quick: the transitions whose source mark byte (the epoch in
/// which the line was last marked, 0 = cleared) is one of the boundary epochs.
fn in_target(c: &Comp, _k: Kind, _w: Want, sc: &Scope) -> bool {
    let b = c.byte as usize;
    match sc.tier {
        Tier::Thorough => b % sc.nshards == sc.shard,
        Tier::Quick => {
            let sets: [&[usize]; 4] = [&[0, 127], &[1, 126], &[2, 64, 125], &[3, 32, 96, 124]];
            sets[sc.shard % 4].contains(&b)
        }
    }
}

pub struct Tour {
    pub g: Graph,
    target: Vec<bool>,
    /// coverage per physical position (thorough) or shared by all positions (quick: one entry)
    covered: Vec<Vec<bool>>,
    claimed: Vec<Vec<u8>>,
    per_position: bool,
    pub target_total: usize,
    pub target_left: usize,
    pub covered_distinct: usize,
    any_covered: Vec<bool>,
    pos_covered: Vec<Vec<bool>>,
    pub pos_covered_distinct: usize,
    plans: Vec<VecDeque<(Kind, Want)>>,
    goals: Vec<Option<usize>>,
    prologue: VecDeque<(Kind, [Want; K])>,
    // BFS scratch
    stamp: Vec<u32>,
    cur_stamp: u32,
    parent: Vec<(u32, u8)>,
    pub plans_made: u64,
}

impl Tour {
    fn new(g: Graph, sc: &Scope) -> Tour {
        let mut target = vec![false; NSTATE * 6];
        let mut total = 0;
        for (c, k, w) in &g.trans {
            if in_target(c, *k, *w, sc) {
                target[tidx(c, *k, *w)] = true;
                total += 1;
            }
        }
        // prologue: the stale-mark-across-the-wrap scenario on every physical position at once:
        // everything is live until the epoch counter approaches its maximum; position 0 is
        // marked for the last time in epoch MAX-2, position 1 in MAX-1, positions 2 and 3 (the
        // straddler) in MAX, position 4 (last line of the block) in RESET right after the wrap;
        // then all of them stay dead for more than a complete epoch cycle (so each stale mark
        // byte meets "its" epoch value again), then everything is re-populated.
        let mut prologue = VecDeque::new();
        let cycle = (MAXS - RESET) as usize + 1;
        let last_live_step = [cycle - 3, cycle - 2, cycle - 1, cycle - 1, cycle];
        for t in 1..=(2 * cycle + 8) {
            let mut w = [Want::Dead; K];
            for (i, wi) in w.iter_mut().enumerate() {
                if t <= last_live_step[i] {
                    *wi = Want::Live;
                }
            }
            prologue.push_back((Kind::Full, w));
        }
        prologue.push_back((Kind::Full, [Want::Live; K]));
        let per_position = sc.tier == Tier::Thorough;
        let sets = if per_position { K } else { 1 };
        let total = total * sets;
        Tour {
            g,
            target,
            covered: vec![vec![false; NSTATE * 6]; sets],
            claimed: vec![vec![0; NSTATE * 6]; sets],
            per_position,
            target_total: total,
            target_left: total,
            covered_distinct: 0,
            any_covered: vec![false; NSTATE * 6],
            pos_covered: vec![vec![false; NSTATE * 6]; K],
            pos_covered_distinct: 0,
            plans: (0..K).map(|_| VecDeque::new()).collect(),
            goals: vec![None; K],
            prologue,
            stamp: vec![0; NSTATE],
            cur_stamp: 0,
            parent: vec![(0, 0); NSTATE],
            plans_made: 0,
        }
    }

    fn set_of(&self, i: usize) -> usize {
        if self.per_position {
            i
        } else {
            0
        }
    }

    fn open(&self, i: usize, t: usize) -> bool {
        let s = self.set_of(i);
        self.target[t] && !self.covered[s][t] && self.claimed[s][t] == 0
    }

    /// Shortest path from `c` to (and through) an uncovered, unclaimed target transition.
    fn plan_from(&mut self, c: Comp, walker: usize) -> Option<(Vec<(Kind, Want)>, usize)> {
        let rot = walker;
        self.cur_stamp += 1;
        let st = self.cur_stamp;
        let mut q = VecDeque::new();
        self.stamp[c.idx()] = st;
        q.push_back(c);
        let nk = self.g.kinds.len();
        while let Some(s) = q.pop_front() {
            for j in 0..(nk * 3) {
                let jj = (j + rot) % (nk * 3);
                let (k, w) = (self.g.kinds[jj / 3], WANTS[jj % 3]);
                if !s.enabled(k, w) {
                    continue;
                }
                let t = tidx(&s, k, w);
                if self.open(walker, t) {
                    // reconstruct
                    let mut path = vec![(k, w)];
                    let mut cur = s;
                    while cur != c {
                        let (pi, mv) = self.parent[cur.idx()];
                        path.push((KINDS[(mv / 3) as usize], WANTS[(mv % 3) as usize]));
                        cur = self.g.comp_at[pi as usize].unwrap();
                    }
                    path.reverse();
                    return Some((path, t));
                }
                let n = s.step(k, w);
                if self.stamp[n.idx()] != st {
                    self.stamp[n.idx()] = st;
                    self.parent[n.idx()] = (s.idx() as u32, (k as u8) * 3 + w as u8);
                    q.push_back(n);
                }
            }
        }
        None
    }

    /// The next global step: the collection kind and what every walker wants.
    fn next(&mut self, comps: &[Comp; K]) -> Option<(Kind, [Want; K])> {
        if let Some(p) = self.prologue.pop_front() {
            return Some(p);
        }
        if self.target_left == 0 {
            return None;
        }
        for i in 0..K {
            if self.plans[i].is_empty() {
                if let Some((path, goal)) = self.plan_from(comps[i], i) {
                    self.plans_made += 1;
                    let si = self.set_of(i);
                    self.claimed[si][goal] += 1;
                    self.goals[i] = Some(goal);
                    self.plans[i] = path.into();
                }
            }
        }
        if self.plans.iter().all(|p| p.is_empty()) {
            return None;
        }
        let kind = if self.plans.iter().any(|p| matches!(p.front(), Some((Kind::Nursery, _)))) { Kind::Nursery } else { Kind::Full };
        let mut wants = [Want::Dead; K];
        for i in 0..K {
            let c = comps[i];
            match self.plans[i].front().cloned() {
                Some((k, w)) if k == kind => {
                    self.plans[i].pop_front();
                    wants[i] = w;
                }
                _ => {
                    // neutral move (nursery: the state does not change), or, for a walker with
                    // nothing left to do, an uncovered transition if there is one, else keep
                    let mut w = if c.occ == Occ::Old { Want::Live } else { Want::Dead };
                    if self.plans[i].is_empty() {
                        for cand in WANTS {
                            if c.enabled(kind, cand) && self.open(i, tidx(&c, kind, cand)) {
                                w = cand;
                                break;
                            }
                        }
                    } else if c.step(kind, w) != c {
                        // cannot happen in a reachable state (see `explore`); be safe
                        self.drop_plan(i);
                    }
                    wants[i] = w;
                }
            }
            if self.plans[i].is_empty() {
                self.drop_plan(i);
            }
        }
        Some((kind, wants))
    }

    fn drop_plan(&mut self, i: usize) {
        self.plans[i].clear();
        if let Some(g) = self.goals[i].take() {
            let si = self.set_of(i);
            self.claimed[si][g] -= 1;
        }
    }

    /// Record that the walkers took these transitions (after the real collection conformed).
    fn record(&mut self, comps: &[Comp; K], kind: Kind, wants: &[Want; K]) {
        for i in 0..K {
            let t = tidx(&comps[i], kind, wants[i]);
            if !self.any_covered[t] {
                self.any_covered[t] = true;
                self.covered_distinct += 1;
            }
            if !self.pos_covered[i][t] {
                self.pos_covered[i][t] = true;
                self.pos_covered_distinct += 1;
            }
            let si = self.set_of(i);
            if self.target[t] && !self.covered[si][t] {
                self.covered[si][t] = true;
                self.target_left -= 1;
            }
        }
    }
}

// =============================================================================================
// the real side

#[derive(Debug)]
enum Stop {
    /// a clause of the property is false on the real heap
    Violation(String, String),
    /// a failure of a class another property owns
    Foreign(String, String),
    /// model and implementation disagree on something the property does not state
    Drift(String),
}

fn addr(a: usize) -> Address {
    unsafe { Address::from_usize(a) }
}

#[derive(Clone, Debug)]
struct BlockSnap {
    reusable: bool,
    holes: Vec<(usize, usize)>,
}

#[derive(Default, Clone, Debug)]
struct Facts {
    gcs: u64,
    full_gcs: u64,
    nursery_gcs: u64,
    wraps: u64,
    allocs: u64,
    allocs_in_holes: u64,
    live_lines_checked: u64,
    holes_checked: u64,
    free_lines_checked: u64,
    blocks_checked: u64,
    copies_checked: u64,
    defrag_gcs: u64,
    nontrivial: u64,
    stale_across_wrap: u64,
    straddler_marked: u64,
    pinned_survivors: u64,
    copied_out: u64,
}

struct Rig {
    w: World,
    plan: String,
    label: String,
    sticky: bool,
    /// start of the tracked block (conformance mode)
    block: usize,
    /// post-collection snapshot of every block holding a live object
    snap: BTreeMap<usize, BlockSnap>,
    known: BTreeSet<usize>,
    f: Facts,
    /// line_mark_state after the previous collection
    last_lms: u8,
    /// the step being executed (replay case)
    case: Value,
    tier: Tier,
}

/// What the copy oracle (called from the binding's `copy` upcall on a GC worker thread) needs:
/// where every object live in the running collection was before it, and where the collection
/// has placed copies so far.
struct CopyWatch {
    active: bool,
    full: bool,
    pre: Vec<(usize, usize, u64)>,
    dests: Vec<(usize, usize)>,
    case: Value,
    label: String,
    tier: Tier,
}
static WATCH: std::sync::Mutex<Option<CopyWatch>> = std::sync::Mutex::new(None);

/// The collector's own allocations are "handing out lines" too: a copy must never be placed on
/// an object that is live in the running collection (whether or not it has been traced yet) nor
/// on an earlier copy.  Checked before anything is written to the destination; a violation ends
/// the process with a result that carries it.
fn copy_oracle(from: usize, to: usize, bytes: usize) {
    let mut g = WATCH.lock().unwrap();
    let Some(w) = g.as_mut() else { return };
    if !w.active || hk::immix_space_of(crate::vm::mmtk(), addr(to)).is_none() {
        return;
    }
    let (s, e) = (to, to + bytes);
    let i = w.pre.partition_point(|x| x.1 <= s);
    let mut bad: Option<String> = None;
    if i < w.pre.len() && w.pre[i].0 < e {
        bad = Some(format!("object id {} live in that collection at [{:#x},{:#x})", w.pre[i].2, w.pre[i].0, w.pre[i].1));
    } else if let Some(d) = w.dests.iter().find(|d| d.0 < e && s < d.1) {
        bad = Some(format!("an earlier copy of the same collection at [{:#x},{:#x})", d.0, d.1));
    }
    if let Some(what) = bad {
        let mut sub = Run::new("C34", w.tier);
        let lms = hk::immix_space_of(crate::vm::mmtk(), addr(to)).map(|sp| (hk::line_mark_state(sp), hk::line_unavail_state(sp), hk::line_mark_byte(addr(to))));
        sub.violation(
            format!("lines:copy_onto_live:{}", w.label),
            format!("{}: a collection (requested as {}) placed the copy of object [{:#x},{:#x}) at [{:#x},{:#x}), which overlaps {}: the copy allocator was handed a line holding a live object (line_mark_state, line_unavail_state, mark byte of the destination line = {:?})", w.label, if w.full { "full" } else { "nursery" }, from, from + bytes, s, e, what, lms),
            w.case.clone(),
        );
        sub.set("exhaustive", false);
        emit_child_result(&sub.to_child_json());
    }
    w.dests.push((s, e));
}

fn space_of(w: &World, a: usize) -> Option<&'static hk::ImmixSpace<VerifVM>> {
    hk::immix_space_of(w.mmtk, addr(a))
}

impl Rig {
    fn boot(plan: &str, variant: &str, label: &str, tier: Tier) -> Rig {
        let _ = crate::vm::COPY_ORACLE.set(Box::new(copy_oracle));
        let mut cfg = BootCfg::new(plan);
        cfg.heap_bytes = 64 << 20;
        match variant {
            "forced" => {
                cfg.options.push(("immix_always_defrag".into(), "true".into()));
                cfg.options.push(("immix_defrag_every_block".into(), "true".into()));
            }
            "always" => cfg.options.push(("immix_always_defrag".into(), "true".into())),
            "sysgc" => cfg.options.push(("full_heap_system_gc".into(), "true".into())),
            _ => {}
        }
        RECORD_COPIES.store(true, std::sync::atomic::Ordering::SeqCst);
        let mut w = World::boot(cfg);
        // the stop/resume bracket and the weak-reference rounds are other properties' monitors
        w.monitor_c11 = false;
        w.monitor_c13 = false;
        Rig { w, plan: plan.to_string(), label: label.to_string(), sticky: plan == "StickyImmix", block: 0, snap: BTreeMap::new(), known: BTreeSet::new(), f: Facts::default(), last_lms: RESET, case: Value::Null, tier }
    }

    fn sig(&self, class: &str) -> String {
        format!("{}:{}", class, self.label)
    }

    fn world_fail(&self, e: (String, String)) -> Stop {
        Stop::Foreign(e.0, e.1)
    }

    /// Allocate an object of `size` bytes into root `slot`.  An overlap with a live object is
    /// this property's failure when the range was offered by the real hole search.
    fn alloc(&mut self, slot: usize, size: usize) -> Result<(u64, usize), Stop> {
        self.f.allocs += 1;
        match self.w.alloc_obj(0, slot, size, 0, 8, Sem::Default, false) {
            Ok(Some(id)) => {
                let a = self.w.shadow.objs[&id].addr;
                Ok((id, a))
            }
            Ok(None) => Err(Stop::Drift(format!("allocation of {} bytes failed (out of memory)", size))),
            Err((sig, msg)) => {
                if sig == "alloc:overlap" {
                    // "... returned [0xS,0xE) overlapping ..."
                    let parse = |s: &str| usize::from_str_radix(s.trim_start_matches("0x"), 16).ok();
                    let range = msg.split("returned [").nth(1).and_then(|r| r.split(')').next()).and_then(|r| {
                        let (a, b) = r.split_once(',')?;
                        Some((parse(a)?, parse(b)?))
                    });
                    if let Some((s, e)) = range {
                        let blk = s & !(BLOCK - 1);
                        let in_hole = self.snap.get(&blk).map(|b| b.holes.iter().any(|(hs, he)| *hs <= s && e <= *he)).unwrap_or(false);
                        if in_hole {
                            return Err(Stop::Violation(self.sig("lines:overlap"), format!("an allocation into a hole returned by get_next_available_lines landed on a live object: {}", msg)));
                        }
                    }
                }
                Err(Stop::Foreign(sig, msg))
            }
        }
    }

    /// Request a collection.  Before it: remember where every live object is.  After it (also
    /// when the World's graph oracle fails): no copy made by the collection may have been placed
    /// on an object that was live in it.
    fn gc(&mut self, full: bool) -> Result<(), Stop> {
        let reach = self.w.shadow_reachable();
        let mut pre: Vec<(usize, usize, u64)> = reach.iter().filter_map(|id| self.w.shadow.objs.get(id)).map(|o| (o.addr, o.addr + o.size, o.id)).collect();
        pre.sort();
        let size_at: BTreeMap<usize, usize> = pre.iter().map(|(s, e, _)| (*s, *e - *s)).collect();
        *WATCH.lock().unwrap() = Some(CopyWatch { active: true, full, pre: pre.clone(), dests: vec![], case: self.case.clone(), label: self.label.clone(), tier: self.tier });
        let r = self.w.gc(0, full);
        if let Some(w) = WATCH.lock().unwrap().as_mut() {
            w.active = false;
        }
        self.f.gcs += 1;
        // copies
        let copies: Vec<(usize, usize)> = self.w.last_report.events.iter().filter_map(|e| if let VmEvent::Copy { from, to } = e { Some((*from, *to)) } else { None }).collect();
        let mut dests: Vec<(usize, usize, usize)> = vec![];
        for (from, to) in &copies {
            let Some(&size) = size_at.get(from) else { continue };
            if space_of(&self.w, *to).is_none() {
                continue;
            }
            self.f.copies_checked += 1;
            let (s, e) = (*to, *to + size);
            let i = pre.partition_point(|x| x.1 <= s);
            if i < pre.len() && pre[i].0 < e {
                return Err(Stop::Violation(
                    self.sig("lines:copy_onto_live"),
                    format!("a collection (requested as {}) copied object [{:#x},{:#x}) to [{:#x},{:#x}), which overlaps object id {} live in that collection at [{:#x},{:#x}): the copy allocator was handed a line holding a live object", if full { "full" } else { "nursery" }, from, from + size, s, e, pre[i].2, pre[i].0, pre[i].1),
                ));
            }
            dests.push((s, e, *from));
        }
        dests.sort();
        for d in dests.windows(2) {
            if d[0].1 > d[1].0 {
                return Err(Stop::Violation(self.sig("lines:copy_onto_live"), format!("two copies of one collection overlap: [{:#x},{:#x}) and [{:#x},{:#x})", d[0].0, d[0].1, d[1].0, d[1].1)));
            }
        }
        if !copies.is_empty() {
            self.f.defrag_gcs += 1;
        }
        r.map_err(|e| self.world_fail(e))
    }

    /// The property clauses, asserted on the real heap for every live object of the shadow heap
    /// that lies in an Immix space.  `full`: the collection just finished traced the whole heap.
    fn check_heap(&mut self, full: bool) -> Result<(), Stop> {
        let mut by_block: BTreeMap<usize, Vec<(usize, usize, u64)>> = BTreeMap::new();
        for o in self.w.shadow.objs.values() {
            if o.sem != Sem::Default || space_of(&self.w, o.addr).is_none() {
                continue;
            }
            let mut b = o.addr & !(BLOCK - 1);
            while b < o.addr + o.size {
                by_block.entry(b).or_default().push((o.addr, o.addr + o.size, o.id));
                b += BLOCK;
            }
        }
        self.snap.clear();
        let what = if full { "full" } else { "nursery" };
        for (blk, objs) in &by_block {
            let blk = *blk;
            let space = space_of(&self.w, blk).unwrap();
            let (lms, un) = (hk::line_mark_state(space), hk::line_unavail_state(space));
            if lms < RESET || lms > MAXS || un < RESET || un > MAXS {
                return Err(Stop::Violation(self.sig("lines:epoch_range"), format!("after a {} collection line_mark_state = {} and line_unavail_state = {}: outside [RESET_MARK_STATE = {}, MAX_MARK_STATE = {}]", what, lms, un, RESET, MAXS)));
            }
            let state = hk::block_state(addr(blk));
            self.f.blocks_checked += 1;
            if state == hk::BlockState::Unallocated {
                return Err(Stop::Violation(self.sig("lines:live_block_released"), format!("after a {} collection the block at {:#x} holds live object id {} but its state is Unallocated", what, blk, objs[0].2)));
            }
            let mut live = vec![0u64; LINES];
            for (s, e, id) in objs {
                let lo = (*s).max(blk);
                let hi = (*e).min(blk + BLOCK);
                for l in ((lo - blk) / LINE)..=((hi - 1 - blk) / LINE) {
                    live[l] = *id;
                }
            }
            let reusable = matches!(state, hk::BlockState::Reusable { .. });
            // every line spanned by a live object carries the current mark state
            if full || self.sticky {
                for l in 0..LINES {
                    if live[l] != 0 {
                        self.f.live_lines_checked += 1;
                        let b = hk::line_mark_byte(addr(blk + l * LINE));
                        if b != lms {
                            return Err(Stop::Violation(
                                self.sig("lines:live_unmarked"),
                                format!("after a {} collection line {} of block {:#x} is spanned by live object id {} but its mark byte is {} (line_mark_state = {})", what, l, blk, live[l], b, lms),
                            ));
                        }
                    }
                }
            }
            // hole search never offers a line spanned by a live object
            let holes: Vec<(usize, usize)> = hk::block_holes(space, addr(blk)).iter().map(|(s, e)| (s.as_usize(), e.as_usize())).collect();
            if reusable || full || self.sticky {
                let mut offered = vec![false; LINES];
                for (hs, he) in &holes {
                    self.f.holes_checked += 1;
                    if *hs < blk || *he > blk + BLOCK || hs >= he || hs % LINE != 0 || he % LINE != 0 {
                        return Err(Stop::Violation(self.sig("lines:hole_malformed"), format!("get_next_available_lines over block {:#x} returned [{:#x},{:#x})", blk, hs, he)));
                    }
                    for l in ((hs - blk) / LINE)..((he - blk) / LINE) {
                        offered[l] = true;
                        if live[l] != 0 {
                            return Err(Stop::Violation(
                                self.sig("lines:live_in_hole"),
                                format!("after a {} collection get_next_available_lines over block {:#x} (state {:?}) returned the hole [line {}, line {}) which contains line {} spanned by live object id {} (mark byte {}, line_mark_state {}, line_unavail_state {})", what, blk, state, (hs - blk) / LINE, (he - blk) / LINE, l, live[l], hk::line_mark_byte(addr(blk + l * LINE)), lms, un),
                            ));
                        }
                    }
                }
                // after a collection that traced the whole heap the marked lines are exactly the
                // lines of live objects: a line that is withheld although nothing live spans it
                // carries a stale mark of an earlier epoch that aliases the current one
                if full && matches!(self.plan.as_str(), "Immix" | "StickyImmix") {
                    for l in 0..LINES {
                        if live[l] == 0 {
                            self.f.free_lines_checked += 1;
                            if !offered[l] {
                                return Err(Stop::Violation(
                                    self.sig("lines:stale_mark_alias"),
                                    format!("after a full collection line {} of block {:#x} is spanned by no live object but hole search withholds it: its mark byte {} aliases line_mark_state {} / line_unavail_state {} (a mark of an earlier epoch survived the wrap)", l, blk, hk::line_mark_byte(addr(blk + l * LINE)), lms, un),
                                ));
                            }
                        }
                    }
                }
            }
            self.known.insert(blk);
            self.snap.insert(blk, BlockSnap { reusable, holes });
        }
        // blocks that hold no live object of the shadow heap any more but may still be in the
        // reusable pool (StickyImmix: old unreachable objects keep their lines until the next
        // full collection)
        for blk in self.known.clone() {
            if self.snap.contains_key(&blk) {
                continue;
            }
            if let (Some(space), hk::BlockState::Reusable { .. }) = (space_of(&self.w, blk), hk::block_state(addr(blk))) {
                let holes = hk::block_holes(space, addr(blk)).iter().map(|(s, e)| (s.as_usize(), e.as_usize())).collect();
                self.snap.insert(blk, BlockSnap { reusable: true, holes });
            }
        }
        Ok(())
    }
}

// ---------------------------------------------------------------------------------------------
// conformance mode

struct Conf {
    rig: Rig,
    comps: [Comp; K],
    /// object id at each tracked position (live in the shadow heap)
    ids: [Option<u64>; K],
    step_no: u64,
    /// After a model drift: keep driving the implementation with the tour (best effort, no
    /// comparison with the model) to see whether the disagreement grows into a violation of a
    /// property clause within an epoch cycle.
    lenient: bool,
}

impl Conf {
    fn line_addr(&self, l: usize) -> usize {
        self.rig.block + l * LINE
    }

    fn drift(&self, msg: String) -> Result<(), Stop> {
        if self.lenient {
            Ok(())
        } else {
            Err(Stop::Drift(format!("step {}: {}", self.step_no, msg)))
        }
    }

    /// Allocate through every hole the allocator offers until it turns to a clean block; objects
    /// landing in a tracked line that the model wants populated are kept.  `first`: the block is
    /// a fresh clean block (program start) and is bump-allocated from line 0.
    fn populate(&mut self, wants: &[Want; K], first: bool) -> Result<(), Stop> {
        let mut filled = [false; K];
        let mut pinned: Vec<u64> = vec![];
        // holes of the tracked block as the real hole search reports them (taken after the last
        // collection; nothing has been allocated since)
        let holes: Vec<(usize, usize)> = if first { vec![] } else { self.rig.snap.get(&self.rig.block).map(|b| b.holes.clone()).unwrap_or_default() };
        let mut expected: Option<usize> = None;
        let mut visited_tracked = first;
        let mut guard = 0;
        let want_fill = |c: &Conf, i: usize| matches!(wants[i], Want::Live | Want::Pinned) && c.ids[i].is_none();
        loop {
            guard += 1;
            if guard > 4 * LINES + 1000 {
                self.drift("hole consumption does not reach a clean block".into())?;
                break;
            }
            // the straddler: a 128-byte filler, the 256-byte object across the line boundary,
            // a 128-byte filler (only when the next address is known to be the start of line 5)
            let s_start = self.line_addr(pos_lines(STRADDLE).0);
            if self.rig.block != 0 && expected == Some(s_start) && want_fill(self, STRADDLE) {
                let (_, a1) = self.rig.alloc(SCRATCH_SLOT, LINE / 2)?;
                let (id, a2) = self.rig.alloc(slot_of(STRADDLE), LINE)?;
                let (_, a3) = self.rig.alloc(SCRATCH_SLOT, LINE / 2)?;
                self.rig.f.allocs_in_holes += 3;
                if a1 != s_start || a2 != s_start + LINE / 2 || a3 != s_start + LINE / 2 + LINE {
                    self.drift(format!("straddler placement: got {:#x} {:#x} {:#x}, expected consecutive from {:#x}", a1, a2, a3, s_start))?;
                    self.rig.w.drop_root(0, slot_of(STRADDLE));
                    expected = None;
                    continue;
                }
                self.ids[STRADDLE] = Some(id);
                filled[STRADDLE] = true;
                if wants[STRADDLE] == Want::Pinned {
                    pinned.push(id);
                }
                expected = self.next_expected(a3 + LINE / 2, &holes, first);
                continue;
            }
            let (id, a) = self.rig.alloc(SCRATCH_SLOT, LINE)?;
            let blk = a & !(BLOCK - 1);
            if first && self.rig.block == 0 {
                self.rig.block = blk;
                self.rig.known.insert(blk);
                if a != blk {
                    return Err(Stop::Drift(format!("the first allocation {:#x} is not at the start of its block", a)));
                }
            }
            if blk == self.rig.block {
                visited_tracked = true;
                self.rig.f.allocs_in_holes += 1;
                if a % LINE != 0 {
                    self.drift(format!("a line-sized allocation in the tracked block is not line aligned: {:#x}", a))?;
                    expected = None;
                    continue;
                }
                if let Some(x) = expected {
                    if x != a {
                        self.drift(format!("allocation in the tracked block returned {:#x}, expected {:#x} from the holes the real hole search reported", a, x))?;
                    }
                } else if !first && holes.first().map(|h| h.0) != Some(a) {
                    // first allocation in the tracked block: must be the start of its first hole
                    self.drift(format!("first allocation in the tracked block returned {:#x}, its first hole is {:x?}", a, holes.first()))?;
                }
                let l = (a - blk) / LINE;
                if l == 0 {
                    // the anchor: always live
                    self.rig.w.set_root(0, ANCHOR_SLOT, Some(id));
                } else if let Some(i) = pos_of_line(l) {
                    if i != STRADDLE && want_fill(self, i) {
                        self.rig.w.set_root(0, slot_of(i), Some(id));
                        self.ids[i] = Some(id);
                        filled[i] = true;
                        if wants[i] == Want::Pinned {
                            pinned.push(id);
                        }
                    }
                }
                expected = self.next_expected(a + LINE, &holes, first);
                if first && a + LINE == blk + BLOCK {
                    break;
                }
            } else if !self.rig.known.contains(&blk) || !self.rig.snap.get(&blk).map(|b| b.reusable).unwrap_or(false) {
                // a clean block: the reusable pool is exhausted
                if first {
                    return Err(Stop::Drift("the first block was left before its last line".into()));
                }
                self.rig.known.insert(blk);
                break;
            } else {
                self.rig.f.allocs_in_holes += 1;
            }
        }
        self.rig.w.set_root(0, SCRATCH_SLOT, None);
        if let Some(space) = space_of(&self.rig.w, self.rig.block) {
            if hk::reusable_blocks_len(space) != 0 {
                self.drift(format!("{} reusable blocks are left although the allocator turned to a clean block", hk::reusable_blocks_len(space)))?;
            }
        }
        if !visited_tracked {
            self.drift("the tracked block has holes but the allocator never visited it".into())?;
        }
        for i in 0..K {
            if want_fill(self, i) && !filled[i] {
                self.drift(format!("tracked position {} (lines {:?}) should have been populated but no allocation landed there", i, pos_lines(i)))?;
            }
        }
        for id in pinned {
            self.rig.w.pin(id, true).map_err(|e| Stop::Foreign(e.0, e.1))?;
            if !self.rig.w.shadow.objs.get(&id).map(|o| o.pinned).unwrap_or(false) {
                return Err(Stop::Drift("pinning is not supported in this build".into()));
            }
        }
        Ok(())
    }

    /// Where the next line-sized allocation in the tracked block must land after the allocator's
    /// cursor reached `cursor`.
    fn next_expected(&self, cursor: usize, holes: &[(usize, usize)], first: bool) -> Option<usize> {
        if first {
            return if cursor < self.rig.block + BLOCK { Some(cursor) } else { None };
        }
        for (hs, he) in holes {
            if cursor >= *hs && cursor < *he {
                return Some(cursor);
            }
            if *hs >= cursor {
                return Some(*hs);
            }
        }
        None
    }

    /// One model transition of every walker, on the real heap.
    fn step(&mut self, kind: Kind, wants: &[Want; K]) -> Result<(), Stop> {
        self.step_no += 1;
        let first = self.rig.block == 0;
        let before = self.comps;
        for i in 0..K {
            if !before[i].enabled(kind, wants[i]) {
                return Err(Stop::Drift(format!("the tour chose a transition that is not enabled: {:?} {:?} {:?}", before[i], kind, wants[i])));
            }
        }
        // the model
        let mut after = before;
        for i in 0..K {
            after[i] = before[i].step(kind, wants[i]);
        }
        self.comps = after;
        // drops
        for i in 0..K {
            if self.ids[i].is_some() && wants[i] == Want::Dead {
                self.rig.w.drop_root(0, slot_of(i));
                self.ids[i] = None;
            }
        }
        self.populate(wants, first)?;
        let lms_before = before[0].lms;
        self.rig.gc(kind == Kind::Full)?;
        match kind {
            Kind::Full => self.rig.f.full_gcs += 1,
            Kind::Nursery => self.rig.f.nursery_gcs += 1,
        }
        // pins last for one collection; objects the model says have left their line (copied
        // out by the nursery collection) are checked and dropped below
        let mut moved_out = vec![];
        for i in 0..K {
            if let Some(id) = self.ids[i] {
                if self.rig.w.shadow.objs.get(&id).map(|o| o.pinned).unwrap_or(false) {
                    self.rig.w.pin(id, false).map_err(|e| Stop::Foreign(e.0, e.1))?;
                    self.rig.f.pinned_survivors += 1;
                }
                if after[i].occ != Occ::Old {
                    moved_out.push((i, id));
                }
            }
        }
        // property clauses on the real heap (all live objects)
        let full = if self.lenient {
            // best effort: what the epoch counter says
            space_of(&self.rig.w, self.rig.block).map(|s| hk::line_mark_state(s) != self.rig.last_lms).unwrap_or(kind == Kind::Full) && kind == Kind::Full
        } else {
            kind == Kind::Full
        };
        self.rig.check_heap(full)?;
        if let Some(s) = space_of(&self.rig.w, self.rig.block) {
            self.rig.last_lms = hk::line_mark_state(s);
        }
        // conformance of the tracked block
        if !self.lenient {
            self.conform(kind, lms_before)?;
        }
        for (i, id) in moved_out {
            if let Some(o) = self.rig.w.shadow.objs.get(&id) {
                let (lo, hi) = (self.line_addr(pos_lines(i).0), self.line_addr(pos_lines(i).1) + LINE);
                if o.addr < hi && lo < o.addr + o.size {
                    self.drift(format!("the unpinned young object at position {} was expected to be copied out by the nursery collection but is still at {:#x}", i, o.addr))?;
                }
            }
            self.rig.f.copied_out += 1;
            self.rig.w.drop_root(0, slot_of(i));
            self.ids[i] = None;
        }
        Ok(())
    }

    fn model_bytes(&self) -> Vec<u8> {
        let mut b = vec![0u8; LINES];
        b[0] = self.comps[0].lms;
        for i in 0..K {
            let (lo, hi) = pos_lines(i);
            for l in lo..=hi {
                b[l] = self.comps[i].byte;
            }
        }
        b
    }

    fn conform(&mut self, kind: Kind, lms_before: u8) -> Result<(), Stop> {
        let blk = self.rig.block;
        let space = space_of(&self.rig.w, blk).ok_or_else(|| Stop::Drift("the tracked block is not in an Immix space".into()))?;
        let (lms, un) = (hk::line_mark_state(space), hk::line_unavail_state(space));
        let m = self.comps[0];
        if kind == Kind::Nursery && lms != lms_before {
            return self.drift(format!("a nursery collection was requested but line_mark_state went from {} to {} (the plan chose a full-heap collection)", lms_before, lms));
        }
        if (lms, un) != (m.lms, m.unavail) {
            return self.drift(format!("epoch counters (line_mark_state, line_unavail_state) are ({}, {}), the model says ({}, {})", lms, un, m.lms, m.unavail));
        }
        if lms < lms_before {
            self.rig.f.wraps += 1;
        }
        let real: Vec<u8> = (0..LINES).map(|l| hk::line_mark_byte(addr(blk + l * LINE))).collect();
        let model = self.model_bytes();
        if real != model {
            let l = (0..LINES).find(|&l| real[l] != model[l]).unwrap();
            return self.drift(format!("mark byte of line {} of the tracked block is {}, the model says {} (line_mark_state {})", l, real[l], model[l], lms));
        }
        let marked = model.iter().filter(|b| **b == lms).count();
        let expect_state = if marked == LINES { hk::BlockState::Unmarked } else { hk::BlockState::Reusable { unavailable_lines: marked as u8 } };
        let state = hk::block_state(addr(blk));
        if hk::block_state_decode(hk::block_state_byte(addr(blk))) != state {
            return Err(Stop::Violation(self.rig.sig("blockstate:metadata_decode"), format!("the block-mark byte {} of the tracked block decodes to {:?} but get_state returned {:?}", hk::block_state_byte(addr(blk)), hk::block_state_decode(hk::block_state_byte(addr(blk))), state)));
        }
        if state != expect_state {
            return self.drift(format!("state of the tracked block is {:?}, the model says {:?}", state, expect_state));
        }
        let mh: Vec<(usize, usize)> = model_holes(&model, m.lms, m.unavail).iter().map(|(s, e)| (blk + s * LINE, blk + e * LINE)).collect();
        let rh = self.rig.snap.get(&blk).map(|b| b.holes.clone()).unwrap_or_default();
        if mh != rh {
            return self.drift(format!("holes of the tracked block are {:x?}, the model says {:x?}", rh, mh));
        }
        // the forced collision: a live tracked line next to free lines that carry the stale mark
        // of an earlier epoch
        let live_tracked = self.comps.iter().any(|c| c.occ == Occ::Old);
        let stale = self.comps.iter().filter(|c| c.occ == Occ::Empty && c.byte != 0).count();
        if live_tracked && stale > 0 {
            self.rig.f.nontrivial += 1;
        }
        if lms < lms_before && stale > 0 {
            self.rig.f.stale_across_wrap += 1;
        }
        if self.comps[STRADDLE].occ == Occ::Old {
            self.rig.f.straddler_marked += 1;
        }
        Ok(())
    }
}

/// Every block state through the real `Block::set_state` / `Block::get_state` of a real block.
fn blockstate_through_metadata(rig: &Rig, sub: &mut Run, case: &Value) {
    let a = addr(rig.block);
    for s in all_domain_states() {
        let got = hk::block_state_store_load(a, s);
        sub.add("evaluations", 1);
        if got != s {
            sub.violation(rig.sig("blockstate:store_load"), format!("set_state({:?}) followed by get_state returned {:?}", s, got), case.clone());
        }
    }
    sub.add("blockstate_store_load", all_domain_states().len() as u64);
}

fn facts_into(sub: &mut Run, f: &Facts) {
    sub.add("collections", f.gcs);
    sub.add("full_collections", f.full_gcs);
    sub.add("nursery_collections", f.nursery_gcs);
    sub.add("epoch_wraps", f.wraps);
    sub.add("allocations", f.allocs);
    sub.add("allocations_into_holes", f.allocs_in_holes);
    sub.add("live_lines_checked", f.live_lines_checked);
    sub.add("holes_checked", f.holes_checked);
    sub.add("free_lines_checked", f.free_lines_checked);
    sub.add("blocks_checked", f.blocks_checked);
    sub.add("copies_checked", f.copies_checked);
    sub.add("collections_that_copied", f.defrag_gcs);
    sub.add("steps_with_stale_mark_across_wrap", f.stale_across_wrap);
    sub.add("steps_with_marked_straddler", f.straddler_marked);
    sub.add("pinned_nursery_survivors", f.pinned_survivors);
    sub.add("young_objects_copied_out", f.copied_out);
}

fn finish_child(mut sub: Run, stop: Option<Stop>, case: Value, label: &str) -> ! {
    let own_all = std::env::var("VERIF_OWN_ALL").is_ok();
    match stop {
        None => {}
        Some(Stop::Violation(sig, msg)) => {
            let note = sub.coverage.get("first_drift").and_then(|d| d.as_str()).map(|d| format!(" [before that the implementation had left the model: {}]", d)).unwrap_or_default();
            sub.violation(sig, format!("{}: {}{}", label, msg, note), case)
        }
        Some(Stop::Foreign(sig, msg)) => {
            if own_all {
                sub.violation(format!("{}:{}", sig, label), format!("{}: {}", label, msg), case);
            } else {
                sub.assume(&format!("{}: stopped by a failure of another property's class ({})", label, sig));
                sub.set("foreign_failures", json!([format!("{}: {} ({})", sig, msg, case)]));
                sub.set("exhaustive", false);
            }
        }
        Some(Stop::Drift(msg)) => {
            sub.set("drift", format!("{}: {} (case {})", label, msg, case));
        }
    }
    emit_child_result(&sub.to_child_json());
}

/// `--child C34 conf <plan> <tier> <variant> <shard> <nshards> [upto]`
fn child_conf(plan: &str, tier: Tier, variant: &str, shard: usize, nshards: usize, upto: Option<u64>) -> ! {
    let label = format!("{}/conf{}of{}", plan, shard, nshards);
    let sig_label = format!("{}/conf", plan);
    let mut sub = Run::new("C34", tier);
    let kinds: Vec<Kind> = if plan == "StickyImmix" { vec![Kind::Full, Kind::Nursery] } else { vec![Kind::Full] };
    let g = explore(&kinds);
    let sc = Scope { tier, shard, nshards };
    let mut tour = Tour::new(g, &sc);
    let base_case = json!({"mode": "conf", "plan": plan, "variant": variant, "tier": tier.name(), "shard": shard, "nshards": nshards});
    set_current_case(&json!({"plan": plan, "program": base_case}));
    let rig = Rig::boot(plan, variant, &sig_label, tier);
    let mut c = Conf { rig, comps: [Comp::INIT; K], ids: [None; K], step_no: 0, lenient: false };
    let mut first_drift: Option<(String, Value)> = None;
    let mut lenient_left = 0u32;
    let budget: u64 = upto.unwrap_or(tier.pick(60_000, 3_000_000));
    let deadline = std::time::Instant::now() + std::time::Duration::from_secs(tier.pick(26, 540));
    let mut stop = None;
    let mut case = base_case.clone();
    let mut out_of_time = false;
    let mut samples = 0;
    while c.step_no < budget {
        // (the clock only bounds the run: it never influences which steps are taken)
        if upto.is_none() && c.step_no % 64 == 0 && std::time::Instant::now() > deadline {
            out_of_time = true;
            break;
        }
        let Some((kind, wants)) = tour.next(&c.comps) else { break };
        let before = c.comps;
        case = json!({"mode": "conf", "plan": plan, "variant": variant, "tier": tier.name(), "shard": shard, "nshards": nshards, "step": c.step_no + 1, "kind": format!("{:?}", kind), "wants": wants.iter().map(|w| format!("{:?}", w)).collect::<Vec<_>>(), "model_before": before.iter().map(|x| x.json()).collect::<Vec<_>>()});
        if c.step_no % 16 == 0 {
            set_current_case(&json!({"plan": plan, "program": case}));
        }
        c.rig.case = case.clone();
        let r = catch(|| c.step(kind, &wants));
        if c.lenient {
            lenient_left -= 1;
            if lenient_left == 0 && matches!(r, Ok(Ok(()))) {
                break;
            }
        }
        match r {
            Ok(Ok(())) if c.lenient => {}
            Ok(Err(Stop::Drift(msg))) if !c.lenient => {
                // keep going for more than an epoch cycle without the model: does the
                // disagreement grow into a violation of a property clause?
                first_drift = Some((msg, case.clone()));
                c.lenient = true;
                lenient_left = 2 * (MAXS as u32) + 50;
            }
            Ok(Ok(())) => {
                tour.record(&before, kind, &wants);
                if c.step_no == 3 {
                    blockstate_through_metadata(&c.rig, &mut sub, &case);
                }
                // one sample per process from the first two shards of a plan: shard 0 right after
                // the first wrap of the prologue, shard 1 somewhere in its tour
                let sample_now = match shard {
                    0 => c.rig.f.wraps == 1,
                    1 => c.step_no >= 500 && kind == if plan == "StickyImmix" { Kind::Nursery } else { Kind::Full },
                    _ => false,
                };
                if samples < 1 && sample_now && c.comps.iter().any(|x| x.occ == Occ::Empty && x.byte != 0) {
                    samples += 1;
                    sub.sample(json!({"plan": plan, "step": c.step_no, "kind": format!("{:?}", kind), "line_mark_state": c.comps[0].lms, "tracked_mark_bytes": c.comps.iter().map(|x| x.byte).collect::<Vec<_>>(), "occupancy": c.comps.iter().map(|x| format!("{:?}", x.occ)).collect::<Vec<_>>(), "holes_of_tracked_block": c.rig.snap.get(&c.rig.block).map(|b| b.holes.iter().map(|(s, e)| ((s - c.rig.block) / LINE, (e - c.rig.block) / LINE)).collect::<Vec<_>>())}));
                }
            }
            Ok(Err(s)) => {
                stop = Some(s);
                break;
            }
            Err(p) => {
                stop = Some(Stop::Foreign(format!("panic{}", crate::shadow_check::panic_slug(&format!("{}:0: {}", last_panic_location(), p))), format!("panic at {}: {}", last_panic_location(), p.lines().next().unwrap_or(""))));
                break;
            }
        }
    }
    if let Some((msg, _)) = &first_drift {
        sub.set("first_drift", msg.clone());
    }
    if let (None, Some((msg, dcase))) = (&stop, &first_drift) {
        stop = Some(Stop::Drift(msg.clone()));
        case = dcase.clone();
    }
    let complete = tour.target_left == 0 && stop.is_none() && !out_of_time;
    sub.add("transitions", c.step_no * K as u64);
    sub.add("evaluations", c.step_no);
    sub.add("traces_validated_against_impl", tour.pos_covered_distinct as u64);
    sub.add("distinct_model_transitions_replayed_per_process", tour.covered_distinct as u64);
    sub.add("distinct_nontrivial", c.rig.f.nontrivial);
    sub.add("target_transitions", tour.target_total as u64);
    sub.add("target_transitions_covered", (tour.target_total - tour.target_left) as u64);
    sub.set("max_depth", c.step_no);
    sub.set("exhaustive", complete);
    facts_into(&mut sub, &c.rig.f);
    sub.set("per_child", json!({label.clone(): {"steps": c.step_no, "target": tour.target_total, "covered": tour.target_total - tour.target_left, "distinct_transitions_replayed": tour.covered_distinct, "wraps": c.rig.f.wraps, "complete": complete}}));
    if out_of_time && stop.is_none() {
        sub.assume(&format!("{}: time budget reached with {} of {} target transitions covered", label, tour.target_total - tour.target_left, tour.target_total));
    }
    finish_child(sub, stop, case, &label)
}

// ---------------------------------------------------------------------------------------------
// direct mode: property clauses only (defragmenting collections, other plans)

const BG: usize = 40;
const BG_SIZES: [usize; 8] = [40, 96, 256, 264, 136, 1032, 72, 200];
const FG_SIZES: [usize; K] = [256, 136, 64, 512, 1032];

/// A cyclic sequence of 5-bit live masks in which every ordered pair of masks occurs as
/// neighbours (an Eulerian circuit of the complete digraph with loops on 32 vertices).
fn mask_sequence() -> Vec<u8> {
    let n = 32usize;
    let mut next_out = vec![0usize; n];
    let mut stack = vec![0usize];
    let mut circuit = vec![];
    while let Some(&v) = stack.last() {
        if next_out[v] < n {
            let u = (v + 1 + next_out[v]) % n;
            next_out[v] += 1;
            stack.push(u);
        } else {
            circuit.push(v as u8);
            stack.pop();
        }
    }
    circuit.reverse();
    circuit.pop();
    circuit
}

/// `--child C34 direct <plan> <tier> <variant> 0 1 [upto]`
fn child_direct(plan: &str, tier: Tier, variant: &str, upto: Option<u64>) -> ! {
    let label = format!("{}/{}", plan, variant);
    let mut sub = Run::new("C34", tier);
    let base_case = json!({"mode": "direct", "plan": plan, "variant": variant, "tier": tier.name(), "shard": 0, "nshards": 1});
    set_current_case(&json!({"plan": plan, "program": base_case}));
    let mut rig = Rig::boot(plan, variant, &label, tier);
    let generational = rig.w.mmtk.get_plan().constraints().generational;
    let seq = mask_sequence();
    let steps: u64 = upto.unwrap_or(tier.pick(2_000, 40_000));
    let deadline = std::time::Instant::now() + std::time::Duration::from_secs(tier.pick(24, 400));
    let mut stop: Option<Stop> = None;
    let mut case = base_case.clone();
    let mut t: u64 = 0;
    let mut moved_total = 0u64;
    let mut masks_seen: BTreeSet<(u8, u8)> = BTreeSet::new();
    let mut nontrivial = 0u64;
    // the holder of the background population (never moves, never collected)
    let holder = match rig.w.alloc_obj(0, SCRATCH_SLOT - 1, 24 + 8 * BG, BG, 8, Sem::Immortal, false) {
        Ok(Some(id)) => id,
        other => {
            let mut sub = sub;
            sub.set("drift", format!("{}: cannot allocate the holder: {:?}", label, other.err()));
            emit_child_result(&sub.to_child_json());
        }
    };
    let mut out_of_time = false;
    while t < steps {
        if upto.is_none() && t % 16 == 0 && std::time::Instant::now() > deadline {
            out_of_time = true;
            break;
        }
        let mask = seq[(t as usize) % seq.len()];
        let prev = if t == 0 { 0 } else { seq[(t as usize - 1) % seq.len()] };
        let full = if generational { t % 3 != 1 } else { true };
        let fillers = [0usize, 12, 140][((t / 5) % 3) as usize];
        case = json!({"mode": "direct", "plan": plan, "variant": variant, "tier": tier.name(), "shard": 0, "nshards": 1, "step": t + 1, "live_mask": mask, "full": full, "fillers": fillers});
        if t % 16 == 0 {
            set_current_case(&json!({"plan": plan, "program": case}));
        }
        rig.case = case.clone();
        let r = catch(|| -> Result<(), Stop> {
            // foreground objects follow the mask sequence
            for i in 0..K {
                let live_now = rig.w.root(0, slot_of(i)).is_some();
                let want = mask & (1 << i) != 0;
                if live_now && !want {
                    rig.w.drop_root(0, slot_of(i));
                } else if !live_now && want {
                    for _ in 0..((t as usize + i) % 3) {
                        rig.alloc(SCRATCH_SLOT, 200)?;
                    }
                    rig.alloc(slot_of(i), FG_SIZES[i])?;
                }
            }
            // background population: object j is replaced every (j % 7) + 2 steps
            for j in 0..BG {
                if t % ((j as u64 % 7) + 2) == (j as u64 % 2) {
                    let size = BG_SIZES[(j + (t as usize / 3)) % BG_SIZES.len()];
                    let (id, _) = rig.alloc(SCRATCH_SLOT, size)?;
                    rig.w.write_field(0, holder, j, Some(id));
                }
            }
            for _ in 0..fillers {
                rig.alloc(SCRATCH_SLOT, LINE)?;
            }
            rig.w.set_root(0, SCRATCH_SLOT, None);
            let space = rig.w.shadow.objs.values().find_map(|o| if o.sem == Sem::Default { space_of(&rig.w, o.addr) } else { None });
            let lms_before = space.map(hk::line_mark_state).unwrap_or(0);
            rig.gc(full)?;
            moved_total += rig.w.last_report.moved as u64;
            let lms_after = space.map(hk::line_mark_state).unwrap_or(0);
            // did the collection trace the whole heap?  (generational plans may decide on a
            // full-heap collection by themselves: the epoch counter tells)
            let was_full = full || (generational && lms_after != lms_before);
            if was_full {
                rig.f.full_gcs += 1;
                if lms_after < lms_before {
                    rig.f.wraps += 1;
                }
            } else {
                rig.f.nursery_gcs += 1;
            }
            rig.check_heap(was_full)?;
            if rig.w.last_report.died > 0 && rig.snap.values().any(|b| b.reusable) {
                nontrivial += 1;
            }
            Ok(())
        });
        match r {
            Ok(Ok(())) => {
                masks_seen.insert((prev, mask));
            }
            Ok(Err(s)) => {
                stop = Some(s);
                break;
            }
            Err(p) => {
                stop = Some(Stop::Foreign(format!("panic{}", crate::shadow_check::panic_slug(&format!("{}:0: {}", last_panic_location(), p))), format!("panic at {}: {}", last_panic_location(), p.lines().next().unwrap_or(""))));
                break;
            }
        }
        t += 1;
        if t == 200 {
            sub.sample(json!({"plan": plan, "variant": variant, "step": t, "objects_moved_so_far": moved_total, "live_lines_checked": rig.f.live_lines_checked, "holes_checked": rig.f.holes_checked, "copies_checked": rig.f.copies_checked}));
        }
    }
    sub.add("direct_steps", t);
    sub.add("evaluations", t);
    sub.add("direct_nontrivial", nontrivial);
    sub.add("objects_moved", moved_total);
    sub.add("direct_mask_pairs", masks_seen.len() as u64);
    facts_into(&mut sub, &rig.f);
    sub.set("per_child", json!({label.clone(): {"steps": t, "objects_moved": moved_total, "copies_checked": rig.f.copies_checked, "wraps": rig.f.wraps, "nursery": rig.f.nursery_gcs, "complete": stop.is_none() && !out_of_time}}));
    if stop.is_some() || out_of_time {
        sub.set("direct_complete", false);
    }
    finish_child(sub, stop, case, &label)
}

/// `--child C34 <mode> <plan> <tier> <variant> <shard> <nshards> [upto]`
pub fn child(args: &[String]) {
    if args.len() < 6 {
        machinery_failure("C34 child: bad arguments");
    }
    install_crash_handlers();
    let _ = crate::common::WORKER_PANIC_HANDLER.set(Box::new(worker_panic_to_crash));
    let tier = if args[2] == "thorough" { Tier::Thorough } else { Tier::Quick };
    let shard: usize = args[4].parse().unwrap_or(0);
    let nshards: usize = args[5].parse().unwrap_or(1);
    let upto: Option<u64> = args.get(6).and_then(|s| s.parse().ok());
    match args[0].as_str() {
        "conf" => child_conf(&args[1], tier, &args[3], shard, nshards, upto),
        "direct" => child_direct(&args[1], tier, &args[3], upto),
        "tourstats" => {
            // debugging aid: length of the tour on the model alone
            let kinds: Vec<Kind> = if args[1] == "StickyImmix" { vec![Kind::Full, Kind::Nursery] } else { vec![Kind::Full] };
            let t0 = std::time::Instant::now();
            let g = explore(&kinds);
            println!("states {} transitions {} depth {}", g.states.len(), g.trans.len(), g.max_depth);
            let mut tour = Tour::new(g, &Scope { tier, shard, nshards });
            let mut comps = [Comp::INIT; K];
            let mut steps = 0u64;
            let mut nursery = 0u64;
            while let Some((k, w)) = tour.next(&comps) {
                let before = comps;
                for i in 0..K {
                    assert!(before[i].enabled(k, w[i]), "{:?} {:?} {:?}", before[i], k, w[i]);
                    comps[i] = before[i].step(k, w[i]);
                }
                tour.record(&before, k, &w);
                steps += 1;
                if k == Kind::Nursery {
                    nursery += 1;
                }
                if upto.map(|u| steps >= u).unwrap_or(false) {
                    break;
                }
            }
            println!("steps {} (nursery {}) target {} left {} distinct {} plans {} in {:?}", steps, nursery, tour.target_total, tour.target_left, tour.covered_distinct, tour.plans_made, t0.elapsed());
            std::process::exit(0);
        }
        _ => machinery_failure("C34 child: unknown mode"),
    }
}

// =============================================================================================
// parent

fn job_args(mode: &str, plan: &str, tier: Tier, variant: &str, shard: usize, nshards: usize) -> Vec<String> {
    vec!["--child".into(), "C34".into(), mode.into(), plan.into(), tier.name().into(), variant.into(), shard.to_string(), nshards.to_string()]
}

fn absorb(run: &mut Run, names: &[String], results: Vec<Value>) {
    for (name, r) in names.iter().zip(results) {
        if r.get("child_crashed").is_some() {
            // a crash (worker panic, fatal signal) belongs to C01's classes
            let crash = r["crash"].as_str().unwrap_or("");
            if std::env::var("VERIF_OWN_ALL").is_ok() {
                run.violation(format!("crash:{}", name), format!("{}: the process died: {}", name, crash), json!({"raw": crash}));
            } else {
                run.assume(&format!("{}: stopped by a crash that belongs to another property's failure class: {}", name, crash.chars().take(300).collect::<String>()));
                run.set("exhaustive", false);
            }
            run.add("children_crashed", 1);
            continue;
        }
        if r.get("child_died").is_some() {
            machinery_failure(&format!("C34 child {} died without a result: {}", name, r));
        }
        if let Some(d) = r["coverage"].get("drift").and_then(|d| d.as_str()) {
            machinery_failure(&format!("model drift (the model and the implementation disagree on something the property does not state): {}", d));
        }
        run.absorb_child_json(&r);
    }
}

pub fn run(run: &mut Run) {
    part_blockstate(run);
    part_line_marking(run);
    // the model, closed, for both kind alphabets
    let g_immix = explore(&[Kind::Full]);
    let g_sticky = explore(&[Kind::Full, Kind::Nursery]);
    run.add("states", g_sticky.states.len() as u64);
    run.add("model_transitions", g_sticky.trans.len() as u64);
    run.set("model", json!({
        "component_states_full_only": g_immix.states.len(), "component_transitions_full_only": g_immix.trans.len(),
        "component_states_full_and_nursery": g_sticky.states.len(), "component_transitions_full_and_nursery": g_sticky.trans.len(),
        "bfs_depth": g_sticky.max_depth, "closed": true, "tracked_positions": K,
        "invariants": "in every reachable state: epoch counters in [RESET, MAX] and equal after a collection; a line holding a live or retained object is not offered by hole search; a line holding none is offered (no stale mark aliases the current epoch)",
    }));
    let tier = run.tier;
    let shards = tier.pick(4, 8);
    let mut jobs: Vec<(String, Vec<String>)> = vec![];
    for plan in ["Immix", "StickyImmix"] {
        for s in 0..shards {
            jobs.push((format!("{}/conf{}of{}", plan, s, shards), job_args("conf", plan, tier, "nodefrag", s, shards)));
        }
    }
    for (plan, variant) in [("Immix", "natural"), ("Immix", "forced"), ("Immix", "sysgc"), ("StickyImmix", "natural"), ("StickyImmix", "forced"), ("GenImmix", "natural"), ("GenImmix", "always"), ("ConcurrentImmix", "natural")] {
        jobs.push((format!("{}/{}", plan, variant), job_args("direct", plan, tier, variant, 0, 1)));
    }
    let names: Vec<String> = jobs.iter().map(|j| j.0.clone()).collect();
    let results = run_children(jobs.iter().map(|j| j.1.clone()).collect(), run.jobs, tier.pick(60, 900));
    absorb(run, &names, results);
    if run.coverage.get("direct_complete").is_some() {
        run.set("exhaustive", false);
    }
    run.set("rule", "distinct_nontrivial = replayed collections after which the tracked block held a live tracked line next to free tracked lines still carrying the (non-zero) mark byte of an earlier epoch, i.e. the hole search had to tell a current mark from a stale one; traces_validated_against_impl = distinct (tracked position, model transition (state, kind, want)) pairs replayed on the real ImmixSpace with full agreement, summed over the child processes (plans x shards); states = component-model states (BFS closed); transitions = component transitions taken by the five walkers on the real heap; exhaustive = the BFS closed and every target transition of the tier was replayed (thorough: every transition of the model at EACH of the five tracked positions, sharded over 8 processes per plan by the source mark byte; quick: the transitions whose source mark byte is one of the epochs {0,1,2,3,32,64,96,124,125,126,127}, plus the prologue in which every tracked line dies in turn and stays dead across a complete epoch cycle) and every direct run completed");
    run.assume("conformance runs avoid defragmentation by consuming every reusable block before each collection (the decision rule of Defrag::decide_whether_to_defrag); defragmenting collections are covered by the direct runs, which assert the property clauses only");
    run.assume("the clause 'a line spanned by no live object is offered after a full collection' (lines:stale_mark_alias) is the reading of 'line-mark epochs incl. wrap-around' supported by the comment in Block::sweep (stale marks must not stick around); it is asserted for Immix and StickyImmix after collections that traced the whole heap");
    run.assume("lines:epoch_range asserts the bound documented by Line::RESET_MARK_STATE / Line::MAX_MARK_STATE");
}

pub fn replay(case: &Value, run: &mut Run) {
    if case["mode"].as_str() == Some("blockstate") {
        part_blockstate(run);
        return;
    }
    if case["mode"].as_str() == Some("linemark") {
        part_line_marking(run);
        return;
    }
    let mode = case["mode"].as_str().unwrap_or("conf");
    let plan = case["plan"].as_str().unwrap_or("Immix");
    let variant = case["variant"].as_str().unwrap_or("nodefrag");
    let tier = if case["tier"].as_str() == Some("thorough") { Tier::Thorough } else { Tier::Quick };
    let shard = case["shard"].as_u64().unwrap_or(0) as usize;
    let nshards = case["nshards"].as_u64().unwrap_or(1) as usize;
    let mut a = job_args(mode, plan, tier, variant, shard, nshards);
    a.push(case["step"].as_u64().unwrap_or(1).to_string());
    let r = run_children(vec![a], 1, 900);
    absorb(run, &[format!("{}/{}", plan, variant)], r);
}
