//! C39 options: (1) every token sequence up to a length bound appended to each option prefix,
//! through the real `FromStr` parsers of `GCTriggerSelector`, `NurserySize`, `AffinityKind` and
//! through `Options::set_from_string`, against reference parsers written from the documented
//! grammar with u128 arithmetic; (2) every history of <= 2 `set_from_string` calls over
//! (every option name) x (a pool of valid / malformed / out-of-range values): the result is true
//! iff the value parses and validates, the option then holds the parsed value, and a failed call
//! leaves the WHOLE `Options` unchanged; (3) `set_bulk_from_string` on every list of <= 3 pairs
//! from a pool equals folding `set_from_string`.
//!
//! Reference grammar (quotes are from src/util/options.rs):
//! * gc_trigger: `FixedHeapSize:<size>` | `DynamicHeapSize:<size>,<size>` | `Delegated`, where
//!   `<size>` is "a number to represents bytes, or a number with the suffix K/k/M/m/G/g" (T/t as
//!   well: the unit tests use `2T` and `4t`), digits only (the patterns say `\d+[kKmMgGtT]?`),
//!   value = number x 1024^n, an error when it does not fit `usize`.
//! * nursery: `Fixed:<usize>` | `Bounded:<v>,<v>` | `ProportionalBounded:<f>,<f>`, "You can omit
//!   lower bound and upper bound to use the default value for bounded nursery by using '_'".
//!   Numbers are what Rust's `usize`/`f64` `FromStr` document (the code delegates to them).
//! * thread_affinity: "" (OS default) or `[RoundRobin:|AllInSet:]<list>`; the list is "numbers
//!   separated by commas, including ranges.  There should be no spaces between the cores";
//!   a range is `a-b` with a < b ("Starting core id in range should be less than the end");
//!   the result is sorted and de-duplicated; core ids are `u16`.

use crate::common::{catch, machinery_failure, Run};
use mmtk::util::options::{
    AffinityKind, GCTriggerSelector, NurserySize, Options, PerfEventOptions, DEFAULT_MAX_NURSERY, DEFAULT_MIN_NURSERY,
    DEFAULT_PROPORTIONAL_MAX_NURSERY, DEFAULT_PROPORTIONAL_MIN_NURSERY,
};
use mmtk::util::os::{OSProcess, OS};
use mmtk::util::verif::c39::options_snapshot;
use mmtk::util::Address;
use serde_json::{json, Value};
use std::collections::BTreeMap;
use std::sync::atomic::{AtomicUsize, Ordering};
use std::sync::Mutex;

// ------------------------------------------------------------------------------------------
// Reference model
// ------------------------------------------------------------------------------------------

/// Why the reference rejects a string.
#[derive(Clone, Copy, Debug, PartialEq, Eq)]
enum Rej {
    /// not in the grammar
    Syntax,
    /// in the grammar, but a number does not fit its type: must be an error, never a wrapped value
    Overflow,
}

/// A reference value; rendered through the `Debug` of the real public type so that it can be
/// compared with the `Debug` rendering of what the implementation stored.
#[derive(Clone, Debug)]
enum RV {
    Bool(bool),
    Usize(usize),
    Addr(usize),
    /// a unit variant of an enum, rendered by its name
    Name(&'static str),
    Nursery(NurserySize),
    Perf(PerfEventOptions),
    Aff(AffinityKind),
    Trig(GCTriggerSelector),
}

impl RV {
    fn dbg(&self) -> String {
        match self {
            RV::Bool(b) => format!("{:?}", b),
            RV::Usize(n) => format!("{:?}", n),
            RV::Addr(a) => format!("{:?}", unsafe { Address::from_usize(*a) }),
            RV::Name(n) => n.to_string(),
            RV::Nursery(n) => format!("{:?}", n),
            RV::Perf(p) => format!("{:?}", p),
            RV::Aff(a) => format!("{:?}", a),
            RV::Trig(t) => format!("{:?}", t),
        }
    }
}

fn all_digits(s: &str) -> bool {
    !s.is_empty() && s.bytes().all(|c| c.is_ascii_digit())
}

/// Decimal value of a digit string in u128, saturating (a saturated value exceeds every limit
/// used here).
fn dec(s: &str) -> u128 {
    let mut v: u128 = 0;
    for c in s.bytes() {
        v = v.saturating_mul(10).saturating_add((c - b'0') as u128);
    }
    v
}

/// Rust's grammar for unsigned integers (`FromStr` of `usize`/`u16`): an optional `+`, then one
/// or more ASCII digits; values above `max` are errors.
fn ref_uint(s: &str, max: u128) -> Result<u128, Rej> {
    let body = s.strip_prefix('+').unwrap_or(s);
    if !all_digits(body) {
        return Err(Rej::Syntax);
    }
    let v = dec(body);
    if v > max {
        Err(Rej::Overflow)
    } else {
        Ok(v)
    }
}

/// Rust's grammar for `i32`: optional `+` or `-`, digits.
fn ref_i32(s: &str) -> Result<i32, Rej> {
    let (neg, body) = match s.as_bytes().first() {
        Some(b'-') => (true, &s[1..]),
        Some(b'+') => (false, &s[1..]),
        _ => (false, s),
    };
    if !all_digits(body) {
        return Err(Rej::Syntax);
    }
    let v = dec(body);
    let lim: u128 = if neg { 1 << 31 } else { (1 << 31) - 1 };
    if v > lim {
        return Err(Rej::Overflow);
    }
    Ok(if neg { (-(v as i64)) as i32 } else { v as i32 })
}

/// Rust's documented grammar for `f64::from_str` (case-insensitive):
/// `Sign? ( 'inf' | 'infinity' | 'nan' | Number )`, `Number ::= ( Digit+ | Digit+ '.' Digit* |
/// Digit* '.' Digit+ ) Exp?`, `Exp ::= 'e' Sign? Digit+`.
fn is_rust_float(s: &str) -> bool {
    if !s.is_ascii() {
        return false;
    }
    let l = s.to_ascii_lowercase();
    let b = l.strip_prefix(['+', '-']).unwrap_or(&l);
    if b == "inf" || b == "infinity" || b == "nan" {
        return true;
    }
    let (mant, exp) = match b.find('e') {
        Some(i) => (&b[..i], Some(&b[i + 1..])),
        None => (b, None),
    };
    if let Some(e) = exp {
        let e = e.strip_prefix(['+', '-']).unwrap_or(e);
        if !all_digits(e) {
            return false;
        }
    }
    let (int, frac) = match mant.find('.') {
        Some(i) => (&mant[..i], Some(&mant[i + 1..])),
        None => (mant, None),
    };
    let digs = |x: &str| x.bytes().all(|c| c.is_ascii_digit());
    match frac {
        None => all_digits(int),
        Some(f) => digs(int) && digs(f) && !(int.is_empty() && f.is_empty()),
    }
}

/// The value of a float literal: grammar by `is_rust_float`, rounding by the standard library
/// (which is not the code under test).
fn ref_float(s: &str) -> Result<f64, Rej> {
    if !is_rust_float(s) {
        return Err(Rej::Syntax);
    }
    match s.parse::<f64>() {
        Ok(v) => Ok(v),
        Err(_) => machinery_failure(&format!("reference float grammar accepts {:?} but std does not", s)),
    }
}

/// `<size>`: digits with an optional one-letter binary suffix; overflow of `usize` is an error.
fn ref_size(s: &str) -> Result<usize, Rej> {
    let (num, mult): (&str, u128) = match s.as_bytes().last() {
        Some(b'k') | Some(b'K') => (&s[..s.len() - 1], 1 << 10),
        Some(b'm') | Some(b'M') => (&s[..s.len() - 1], 1 << 20),
        Some(b'g') | Some(b'G') => (&s[..s.len() - 1], 1 << 30),
        Some(b't') | Some(b'T') => (&s[..s.len() - 1], 1 << 40),
        _ => (s, 1),
    };
    if !all_digits(num) {
        return Err(Rej::Syntax);
    }
    let v = dec(num).saturating_mul(mult);
    if v > usize::MAX as u128 {
        Err(Rej::Overflow)
    } else {
        Ok(v as usize)
    }
}

/// Combine component results: a syntax error anywhere is a syntax error, otherwise overflow.
fn both<A, B>(a: Result<A, Rej>, b: Result<B, Rej>) -> Result<(A, B), Rej> {
    match (a, b) {
        (Ok(a), Ok(b)) => Ok((a, b)),
        (Err(Rej::Syntax), _) | (_, Err(Rej::Syntax)) => Err(Rej::Syntax),
        _ => Err(Rej::Overflow),
    }
}

fn ref_trigger(s: &str) -> Result<GCTriggerSelector, Rej> {
    if let Some(r) = s.strip_prefix("FixedHeapSize:") {
        return ref_size(r).map(GCTriggerSelector::FixedHeapSize);
    }
    if let Some(r) = s.strip_prefix("DynamicHeapSize:") {
        let parts: Vec<&str> = r.split(',').collect();
        if parts.len() != 2 {
            return Err(Rej::Syntax);
        }
        return both(ref_size(parts[0]), ref_size(parts[1])).map(|(a, b)| GCTriggerSelector::DynamicHeapSize(a, b));
    }
    if s == "Delegated" {
        return Ok(GCTriggerSelector::Delegated);
    }
    Err(Rej::Syntax)
}

fn ref_nursery(s: &str) -> Result<NurserySize, Rej> {
    let parts: Vec<&str> = s.split(':').collect();
    if parts.len() != 2 {
        return Err(Rej::Syntax);
    }
    let vals: Vec<&str> = parts[1].split(',').collect();
    let us = |v: &str, default: usize| -> Result<usize, Rej> {
        if v == "_" {
            Ok(default)
        } else {
            ref_uint(v, usize::MAX as u128).map(|x| x as usize)
        }
    };
    let fl = |v: &str, default: f64| -> Result<f64, Rej> {
        if v == "_" {
            Ok(default)
        } else {
            ref_float(v)
        }
    };
    match parts[0] {
        "Bounded" if vals.len() == 2 => {
            both(us(vals[0], DEFAULT_MIN_NURSERY), us(vals[1], DEFAULT_MAX_NURSERY)).map(|(min, max)| NurserySize::Bounded { min, max })
        }
        "ProportionalBounded" if vals.len() == 2 => both(fl(vals[0], DEFAULT_PROPORTIONAL_MIN_NURSERY), fl(vals[1], DEFAULT_PROPORTIONAL_MAX_NURSERY))
            .map(|(min, max)| NurserySize::ProportionalBounded { min, max }),
        "Fixed" if vals.len() == 1 => ref_uint(vals[0], usize::MAX as u128).map(|x| NurserySize::Fixed(x as usize)),
        _ => Err(Rej::Syntax),
    }
}

fn ref_affinity(s: &str) -> Result<AffinityKind, Rej> {
    if s.is_empty() {
        return Ok(AffinityKind::OsDefault);
    }
    let (all_in_set, list) = match s.find(':') {
        Some(i) => match &s[..i] {
            "RoundRobin" => (false, &s[i + 1..]),
            "AllInSet" => (true, &s[i + 1..]),
            _ => return Err(Rej::Syntax),
        },
        None => (false, s),
    };
    let core = |x: &str| ref_uint(x, u16::MAX as u128).map(|v| v as u16);
    let mut set = std::collections::BTreeSet::new();
    let mut overflow = false;
    for item in list.split(',') {
        let ends: Vec<&str> = item.split('-').collect();
        match ends.len() {
            1 => match core(ends[0]) {
                Ok(c) => {
                    set.insert(c);
                }
                Err(Rej::Syntax) => return Err(Rej::Syntax),
                Err(Rej::Overflow) => overflow = true,
            },
            2 => match both(core(ends[0]), core(ends[1])) {
                Ok((a, b)) => {
                    if a >= b {
                        // a well-formed but empty/reversed range: documented error
                        // (syntax class: no number overflows)
                        return Err(Rej::Syntax);
                    }
                    for c in a..=b {
                        set.insert(c);
                    }
                }
                Err(Rej::Syntax) => return Err(Rej::Syntax),
                Err(Rej::Overflow) => overflow = true,
            },
            _ => return Err(Rej::Syntax),
        }
    }
    if overflow {
        return Err(Rej::Overflow);
    }
    let v: Vec<u16> = set.into_iter().collect();
    Ok(if all_in_set { AffinityKind::AllInSet(v) } else { AffinityKind::RoundRobin(v) })
}

/// `<events> ::= <event> ";" <events> | <event> | ""`, `<event> ::= <event-name> "," <pid> "," <cpu>`
/// (read leniently: empty segments are skipped; only used to know that the value parses -- both
/// perf options fail validation in a build without the `perf_counter` feature).
fn ref_perf(s: &str) -> Result<PerfEventOptions, Rej> {
    let mut events = vec![];
    for seg in s.split(';').filter(|e| !e.is_empty()) {
        let f: Vec<&str> = seg.split(',').collect();
        if f.len() != 3 {
            return Err(Rej::Syntax);
        }
        let (pid, cpu) = both(ref_i32(f[1]), ref_i32(f[2]))?;
        events.push((f[0].to_string(), pid, cpu));
    }
    Ok(PerfEventOptions { events })
}

const PLANS: [&str; 11] =
    ["NoGC", "SemiSpace", "GenCopy", "GenImmix", "MarkSweep", "PageProtect", "Immix", "MarkCompact", "Compressor", "StickyImmix", "ConcurrentImmix"];
const ZEROING: [&str; 4] = ["Temporal", "Nontemporal", "Concurrent", "Adaptive"];

/// Parse `val` as a value of the declared type `ty` of an option.
fn ref_parse(ty: &str, val: &str) -> Result<RV, Rej> {
    match ty {
        "bool" => match val {
            "true" => Ok(RV::Bool(true)),
            "false" => Ok(RV::Bool(false)),
            _ => Err(Rej::Syntax),
        },
        "usize" => ref_uint(val, usize::MAX as u128).map(|v| RV::Usize(v as usize)),
        "Address" => ref_uint(val, usize::MAX as u128).map(|v| RV::Addr(v as usize)),
        "PlanSelector" => PLANS.iter().find(|p| **p == val).map(|p| RV::Name(*p)).ok_or(Rej::Syntax),
        "NurseryZeroingOptions" => ZEROING.iter().find(|p| **p == val).map(|p| RV::Name(*p)).ok_or(Rej::Syntax),
        "NurserySize" => ref_nursery(val).map(RV::Nursery),
        "PerfEventOptions" => ref_perf(val).map(RV::Perf),
        "AffinityKind" => ref_affinity(val).map(RV::Aff),
        "GCTriggerSelector" => ref_trigger(val).map(RV::Trig),
        _ => machinery_failure(&format!("reference model does not know option type {}", ty)),
    }
}

/// The validity constraint each option declares in the option table.
fn ref_valid(name: &str, v: &RV, ncpu: u16) -> bool {
    match (name, v) {
        ("threads", RV::Usize(n)) | ("vm_space_size", RV::Usize(n)) => *n > 0,
        ("immix_defrag_headroom_percent", RV::Usize(n)) => *n <= 50,
        ("nursery", RV::Nursery(n)) => match *n {
            NurserySize::Bounded { min, max } => min <= max,
            NurserySize::ProportionalBounded { min, max } => 0.0 < min && min <= max && max <= 1.0,
            NurserySize::Fixed(_) => true,
        },
        ("thread_affinity", RV::Aff(a)) => match a {
            AffinityKind::RoundRobin(l) => l.iter().all(|c| *c < ncpu),
            _ => true,
        },
        ("gc_trigger", RV::Trig(t)) => match *t {
            GCTriggerSelector::FixedHeapSize(s) => s > 0,
            GCTriggerSelector::DynamicHeapSize(a, b) => a <= b,
            GCTriggerSelector::Delegated => true,
        },
        // the harness builds mmtk-core without `perf_counter`
        ("work_perf_events", _) | ("phase_perf_events", _) | ("perf_exclude_kernel", _) => false,
        ("transparent_hugepages", RV::Bool(b)) => !*b || cfg!(target_os = "linux"),
        _ => true,
    }
}

/// The option table the reference model was written for; a difference is a machinery failure
/// (the model has to be updated), never a verdict.
const KNOWN: [(&str, &str); 28] = [
    ("plan", "PlanSelector"),
    ("threads", "usize"),
    ("use_short_stack_scans", "bool"),
    ("use_return_barrier", "bool"),
    ("eager_complete_sweep", "bool"),
    ("ignore_system_gc", "bool"),
    ("nursery", "NurserySize"),
    ("full_heap_system_gc", "bool"),
    ("no_finalizer", "bool"),
    ("no_reference_types", "bool"),
    ("nursery_zeroing", "NurseryZeroingOptions"),
    ("stress_factor", "usize"),
    ("analysis_factor", "usize"),
    ("precise_stress", "bool"),
    ("vm_space_start", "Address"),
    ("vm_space_size", "usize"),
    ("side_metadata_base_address", "Address"),
    ("work_perf_events", "PerfEventOptions"),
    ("phase_perf_events", "PerfEventOptions"),
    ("perf_exclude_kernel", "bool"),
    ("thread_affinity", "AffinityKind"),
    ("gc_trigger", "GCTriggerSelector"),
    ("transparent_hugepages", "bool"),
    ("count_live_bytes_in_gc", "bool"),
    ("immix_always_defrag", "bool"),
    ("immix_defrag_every_block", "bool"),
    ("immix_defrag_headroom_percent", "usize"),
    ("concurrent_immix_disable_concurrent_marking", "bool"),
];

fn option_table() -> Vec<(&'static str, &'static str)> {
    let snap = options_snapshot(&Options::default());
    let got: Vec<(&str, &str)> = snap.iter().map(|(n, t, _)| (*n, *t)).collect();
    let want: Vec<(&str, &str)> = KNOWN.to_vec();
    if got != want {
        machinery_failure(&format!("the option table changed; update the C39 reference model. real: {:?}", got));
    }
    got
}

// ------------------------------------------------------------------------------------------
// Part 1: token sequences through the parsers
// ------------------------------------------------------------------------------------------

#[derive(Clone, Copy, Debug, PartialEq, Eq, PartialOrd, Ord)]
enum Kind {
    Trigger,
    Nursery,
    Affinity,
    /// a plain `usize` option with a validator (`threads`, > 0)
    Threads,
}

impl Kind {
    fn option(self) -> &'static str {
        match self {
            Kind::Trigger => "gc_trigger",
            Kind::Nursery => "nursery",
            Kind::Affinity => "thread_affinity",
            Kind::Threads => "threads",
        }
    }
    fn ty(self) -> &'static str {
        match self {
            Kind::Trigger => "GCTriggerSelector",
            Kind::Nursery => "NurserySize",
            Kind::Affinity => "AffinityKind",
            Kind::Threads => "usize",
        }
    }
    fn from_name(s: &str) -> Kind {
        match s {
            "gc_trigger" => Kind::Trigger,
            "nursery" => Kind::Nursery,
            "thread_affinity" => Kind::Affinity,
            _ => Kind::Threads,
        }
    }
    /// The real parser, called directly (`None` for `usize`: that is the standard library's).
    fn parse_real(self, s: &str) -> Option<Result<String, String>> {
        match self {
            Kind::Trigger => Some(s.parse::<GCTriggerSelector>().map(|v| format!("{:?}", v))),
            Kind::Nursery => Some(s.parse::<NurserySize>().map(|v| format!("{:?}", v))),
            Kind::Affinity => Some(s.parse::<AffinityKind>().map(|v| format!("{:?}", v))),
            Kind::Threads => None,
        }
    }
    fn field(self, o: &Options) -> String {
        match self {
            Kind::Trigger => format!("{:?}", *o.gc_trigger),
            Kind::Nursery => format!("{:?}", *o.nursery),
            Kind::Affinity => format!("{:?}", *o.thread_affinity),
            Kind::Threads => format!("{:?}", *o.threads),
        }
    }
}

const ALL_KINDS: [Kind; 4] = [Kind::Trigger, Kind::Nursery, Kind::Affinity, Kind::Threads];

/// A thread's private `Options` plus what the model says each swept option currently holds.
struct Probe {
    o: Options,
    cur: BTreeMap<Kind, String>,
    ncpu: u16,
}

impl Probe {
    fn new() -> Self {
        let o = Options::default();
        let cur = ALL_KINDS.iter().map(|k| (*k, k.field(&o))).collect();
        Probe { o, cur, ncpu: OS::get_total_num_cpus() }
    }
}

#[derive(Default)]
struct Tally {
    strings: u64,
    calls: u64,
    compared: u64,
    ref_accepts: u64,
    ref_overflow: u64,
    ref_invalid: u64,
    violations: Vec<(String, String, Value)>,
    violating: u64,
}

impl Tally {
    fn violation(&mut self, sig: String, msg: String, case: Value) {
        self.violating += 1;
        if !self.violations.iter().any(|v| v.0 == sig) {
            self.violations.push((sig, msg, case));
        }
    }
    fn merge_into(self, run: &mut Run, t: &mut Tally) {
        t.strings += self.strings;
        t.calls += self.calls;
        t.compared += self.compared;
        t.ref_accepts += self.ref_accepts;
        t.ref_overflow += self.ref_overflow;
        t.ref_invalid += self.ref_invalid;
        let extra = self.violating.saturating_sub(self.violations.len() as u64);
        for (s, m, c) in self.violations {
            run.violation(s, m, c);
        }
        if extra > 0 {
            run.add("violating_executions_total", extra);
        }
    }
}

/// The class of an accept/reject disagreement (part of the violation signature).
fn accept_class(kind: Kind, s: &str, rej: Rej) -> &'static str {
    if rej == Rej::Overflow {
        return "overflow-not-reported";
    }
    if kind == Kind::Trigger && s.starts_with("Delegated") {
        return "accepts-trailing-garbage-after-Delegated";
    }
    "accepts-string-outside-grammar"
}

/// One string through one parser: direct `FromStr`, then `set_from_string` on the probe.
/// Returns a short description of the reference outcome.
fn check_string(p: &mut Probe, kind: Kind, s: &str, t: &mut Tally, set_on_reject: bool) -> String {
    let want = ref_parse(kind.ty(), s);
    let case = || json!({"part": "parse", "option": kind.option(), "value": s});
    let mut parse_level_mismatch = false;
    match &want {
        Ok(_) => t.ref_accepts += 1,
        Err(Rej::Overflow) => t.ref_overflow += 1,
        Err(Rej::Syntax) => {}
    }
    // (a) the parser itself
    let real = catch(|| kind.parse_real(s));
    t.calls += 1;
    let real_rejects: Option<bool> = match &real {
        Ok(Some(r)) => Some(r.is_err()),
        _ => None,
    };
    match real {
        Err(panic) => {
            parse_level_mismatch = true;
            t.violation(format!("parse:{}:panic", kind.option()), format!("{}::from_str({:?}) panicked: {}", kind.ty(), s, panic), case());
        }
        Ok(None) => {}
        Ok(Some(got)) => {
            t.compared += 1;
            match (&got, &want) {
                (Ok(g), Ok(w)) => {
                    if *g != w.dbg() {
                        parse_level_mismatch = true;
                        t.violation(
                            format!("parse:{}:wrong-value", kind.option()),
                            format!("{:?} parsed as {}, the documented grammar gives {}", s, g, w.dbg()),
                            case(),
                        );
                    }
                }
                (Err(_), Err(_)) => {}
                (Ok(g), Err(r)) => {
                    parse_level_mismatch = true;
                    t.violation(
                        format!("parse:{}:{}", kind.option(), accept_class(kind, s, *r)),
                        format!("{:?} is accepted as {} but the documented grammar rejects it ({:?})", s, g, r),
                        case(),
                    );
                }
                (Err(e), Ok(w)) => {
                    parse_level_mismatch = true;
                    t.violation(
                        format!("parse:{}:rejects-string-in-grammar", kind.option()),
                        format!("{:?} is rejected ({}) but the documented grammar gives {}", s, e, w.dbg()),
                        case(),
                    );
                }
            }
        }
    }
    // (b) through set_from_string: true iff parses and validates; the option holds the value.
    // The deepest sweep skips this step for strings that the reference and the parser itself
    // both reject (the parser is a pure function of the string; set_from_string on rejected
    // strings is covered by the shallower sweeps and by part 2).
    if !set_on_reject && want.is_err() && matches!(real_rejects, Some(true)) {
        return format!("reject ({:?})", want.as_ref().err().unwrap());
    }
    let expect: Option<String> = match &want {
        Ok(v) if ref_valid(kind.option(), v, p.ncpu) => Some(v.dbg()),
        Ok(_) => {
            t.ref_invalid += 1;
            None
        }
        Err(_) => None,
    };
    let r = catch(|| p.o.set_from_string(kind.option(), s));
    t.calls += 1;
    t.compared += 1;
    let now = kind.field(&p.o);
    let before = p.cur[&kind].clone();
    let mut bad: Option<(&str, String)> = None;
    match (&r, &expect) {
        (Err(panic), _) => bad = Some(("panic", format!("set_from_string({:?}, {:?}) panicked: {}", kind.option(), s, panic))),
        (Ok(true), Some(e)) => {
            if now != *e {
                bad = Some(("true-but-wrong-value", format!("set_from_string({:?}, {:?}) = true but the option holds {} instead of {}", kind.option(), s, now, e)));
            }
        }
        (Ok(false), None) => {
            if now != before {
                bad = Some(("false-but-changed", format!("set_from_string({:?}, {:?}) = false but the option changed from {} to {}", kind.option(), s, before, now)));
            }
        }
        (Ok(true), None) => {
            bad = Some((
                if want.is_ok() { "true-for-invalid-value" } else { "true-for-unparsable-value" },
                format!("set_from_string({:?}, {:?}) = true (option now {}) but the value {}", kind.option(), s, now, if want.is_ok() { "fails validation" } else { "does not parse" }),
            ))
        }
        (Ok(false), Some(e)) => bad = Some(("false-for-valid-value", format!("set_from_string({:?}, {:?}) = false but the value parses to {} and validates", kind.option(), s, e))),
    }
    if let Some((class, msg)) = bad {
        // one root cause, one report: a disagreement already reported at parser level is not
        // reported again through set_from_string
        if !parse_level_mismatch {
            t.violation(format!("set:{}:{}", kind.option(), class), msg, case());
        }
    }
    p.cur.insert(kind, now);
    match (&want, &expect) {
        (Ok(_), Some(e)) => format!("accept {}", e),
        (Ok(v), None) => format!("parses to {} but fails validation", v.dbg()),
        (Err(r), _) => format!("reject ({:?})", r),
    }
}

/// DESIGN.md's alphabet, plus 2^54 - 1 (the largest number that may carry a `k`).
const TOKENS: [&str; 20] = [
    "0",
    "1",
    "9",
    "18446744073709551615",
    "18446744073709551616",
    "18014398509481984",
    "18014398509481983",
    "k",
    "K",
    "m",
    "g",
    "T",
    ",",
    ":",
    "-",
    "_",
    ".",
    "x",
    " ",
    "+",
];
/// Core-id boundaries (u16) for the CPU list; no small numbers, so no 65 536-core ranges.
const CPU_TOKENS: [&str; 6] = ["65533", "65535", "65536", ",", "-", "+"];
/// Float syntax for the proportional nursery.
const FLOAT_TOKENS: [&str; 12] = ["0", "1", "5", ".", "e", "E", "-", "+", "_", ",", "inf", "nan"];

struct Sweep {
    name: &'static str,
    tokens: &'static [&'static str],
    /// (prefix, parsers the strings go to)
    prefixes: Vec<(&'static str, Vec<Kind>)>,
    max_len: usize,
    /// whether strings rejected by both the reference and the parser still go through
    /// `set_from_string`
    set_on_reject: bool,
}

fn sweeps(run: &Run) -> Vec<Sweep> {
    let all = ALL_KINDS.to_vec();
    let main_len = run.tier.pick(4, 5);
    let mut v = vec![Sweep {
        name: "main",
        tokens: &TOKENS,
        prefixes: vec![
            ("FixedHeapSize:", all.clone()),
            ("DynamicHeapSize:", all.clone()),
            ("Delegated", all.clone()),
            ("Bounded:", all.clone()),
            ("ProportionalBounded:", all.clone()),
            ("Fixed:", all.clone()),
            ("RoundRobin:", all.clone()),
            ("AllInSet:", all.clone()),
            ("", all.clone()),
        ],
        max_len: main_len,
        set_on_reject: true,
    }];
    v.push(Sweep {
        name: "cpu-boundary",
        tokens: &CPU_TOKENS,
        prefixes: vec![("", vec![Kind::Affinity]), ("RoundRobin:", vec![Kind::Affinity]), ("AllInSet:", vec![Kind::Affinity])],
        max_len: run.tier.pick(4, 5),
        set_on_reject: true,
    });
    v.push(Sweep { name: "float", tokens: &FLOAT_TOKENS, prefixes: vec![("ProportionalBounded:", vec![Kind::Nursery])], max_len: run.tier.pick(4, 5), set_on_reject: true });
    if run.tier == crate::common::Tier::Thorough {
        // one token deeper for each prefix through its own parser
        v.push(Sweep {
            name: "main-deep",
            tokens: &TOKENS,
            prefixes: vec![
                ("FixedHeapSize:", vec![Kind::Trigger]),
                ("DynamicHeapSize:", vec![Kind::Trigger]),
                ("Bounded:", vec![Kind::Nursery]),
                ("ProportionalBounded:", vec![Kind::Nursery]),
                ("Fixed:", vec![Kind::Nursery]),
                ("RoundRobin:", vec![Kind::Affinity]),
                ("AllInSet:", vec![Kind::Affinity]),
                ("", vec![Kind::Affinity]),
            ],
            max_len: 6,
            set_on_reject: false,
        });
    }
    v
}

struct Job {
    sweep: usize,
    prefix: usize,
    len: usize,
    first: Option<usize>,
}

fn run_job(sw: &Sweep, job: &Job, p: &mut Probe) -> Tally {
    let mut t = Tally::default();
    let (prefix, kinds) = &sw.prefixes[job.prefix];
    let n = sw.tokens.len();
    let free = if job.first.is_some() { job.len - 1 } else { job.len };
    let mut idx = vec![0usize; free];
    let mut s = String::with_capacity(160);
    loop {
        s.clear();
        s.push_str(prefix);
        if let Some(f) = job.first {
            s.push_str(sw.tokens[f]);
        }
        for &i in &idx {
            s.push_str(sw.tokens[i]);
        }
        t.strings += 1;
        for &k in kinds {
            check_string(p, k, &s, &mut t, sw.set_on_reject);
        }
        // odometer
        let mut pos = free;
        loop {
            if pos == 0 {
                return t;
            }
            pos -= 1;
            idx[pos] += 1;
            if idx[pos] < n {
                break;
            }
            idx[pos] = 0;
        }
    }
}

fn part1(run: &mut Run) -> Tally {
    let sws = sweeps(run);
    let mut jobs = vec![];
    for (si, sw) in sws.iter().enumerate() {
        let deep = sw.name == "main-deep";
        for pi in 0..sw.prefixes.len() {
            for len in 0..=sw.max_len {
                if deep && len != sw.max_len {
                    continue;
                }
                if len == 0 {
                    jobs.push(Job { sweep: si, prefix: pi, len, first: None });
                } else {
                    for f in 0..sw.tokens.len() {
                        jobs.push(Job { sweep: si, prefix: pi, len, first: Some(f) });
                    }
                }
            }
        }
    }
    // biggest jobs first
    let order: Vec<usize> = {
        let mut o: Vec<usize> = (0..jobs.len()).collect();
        o.sort_by_key(|&i| std::cmp::Reverse((sws[jobs[i].sweep].tokens.len() as u64).pow(jobs[i].len as u32) * sws[jobs[i].sweep].prefixes[jobs[i].prefix].1.len() as u64));
        o
    };
    let results: Mutex<Vec<Option<Tally>>> = Mutex::new((0..jobs.len()).map(|_| None).collect());
    let next = AtomicUsize::new(0);
    std::thread::scope(|sc| {
        for _ in 0..run.jobs.max(1) {
            sc.spawn(|| {
                let fresh = Probe::new();
                loop {
                    let i = next.fetch_add(1, Ordering::SeqCst);
                    if i >= order.len() {
                        break;
                    }
                    let j = &jobs[order[i]];
                    // every job starts from the default options: what a job reports does not
                    // depend on which jobs the thread ran before
                    let mut p = Probe { o: fresh.o.clone(), cur: fresh.cur.clone(), ncpu: fresh.ncpu };
                    let t = run_job(&sws[j.sweep], j, &mut p);
                    results.lock().unwrap()[order[i]] = Some(t);
                }
            });
        }
    });
    let mut total = Tally::default();
    // merged in job order: the reported first case of a signature does not depend on scheduling
    for r in results.into_inner().unwrap() {
        r.unwrap().merge_into(run, &mut total);
    }
    let desc: Vec<String> = sws
        .iter()
        .map(|s| format!("{}: {} tokens, <= {} tokens after each of {:?}", s.name, s.tokens.len(), s.max_len, s.prefixes.iter().map(|p| p.0).collect::<Vec<_>>()))
        .collect();
    run.set("part1_sweeps", json!(desc));
    run.set("part1_strings", total.strings);
    run.set("part1_ref_accepts", total.ref_accepts);
    run.set("part1_ref_overflow_rejects", total.ref_overflow);
    run.set("part1_ref_parses_but_invalid", total.ref_invalid);
    // showcase cases (members of the enumerated space), with their actual outcomes
    let mut p = Probe::new();
    let mut t = Tally::default();
    for (k, s) in [
        (Kind::Trigger, "DynamicHeapSize:1k,1m"),
        (Kind::Trigger, "FixedHeapSize:18014398509481984k"),
        (Kind::Trigger, "FixedHeapSize:18014398509481983K"),
        (Kind::Nursery, "Bounded:_,1"),
        (Kind::Affinity, "AllInSet:9-11,0"),
    ] {
        let outcome = check_string(&mut p, k, s, &mut t, true);
        run.sample(json!({"option": k.option(), "value": s, "reference": outcome, "agrees": t.violations.is_empty()}));
    }
    total
}

// ------------------------------------------------------------------------------------------
// Part 2: all-or-nothing
// ------------------------------------------------------------------------------------------

type Snap = Vec<(&'static str, &'static str, String)>;

fn value_pool(ncpu: u16) -> Vec<String> {
    let mut v: Vec<String> = [
        "true",
        "false",
        "True",
        "",
        "0",
        "1",
        "50",
        "51",
        "4096",
        "+7",
        "-1",
        " 1",
        "1 ",
        "1k",
        "0x10",
        "18446744073709551615",
        "18446744073709551616",
        "Immix",
        "SemiSpace",
        "immix",
        "Temporal",
        "Adaptive",
        "Fixed:8192",
        "Fixed:_",
        "Bounded:1,2",
        "Bounded:2,1",
        "Bounded:_,1",
        "Bounded:_,_",
        "Bounded:1",
        "ProportionalBounded:0.2,1.0",
        "ProportionalBounded:0.5,0.2",
        "ProportionalBounded:0,1",
        "ProportionalBounded:0.1,1.5",
        "ProportionalBounded:_,_",
        "ProportionalBounded:nan,1",
        "FixedHeapSize:1m",
        "FixedHeapSize:0",
        "FixedHeapSize:16777215t",
        "FixedHeapSize:16777216t",
        "FixedHeapSize:-1",
        "FixedHeapSize:1.5g",
        "DynamicHeapSize:1k,1m",
        "DynamicHeapSize:1m,1m",
        "DynamicHeapSize:2m,1m",
        "Delegated",
        "0,1",
        "0-1",
        "1-0",
        "0,",
        "AllInSet:0,1",
        "PERF_COUNT_HW_CPU_CYCLES,0,-1",
        "a,1,1;b,2,2",
        "a,1",
    ]
    .iter()
    .map(|s| s.to_string())
    .collect();
    // validation boundary of the CPU list on this machine
    v.push(format!("RoundRobin:{}", ncpu - 1));
    v.push(format!("RoundRobin:{}", ncpu));
    v.push(format!("0-{}", ncpu));
    v.push(format!("AllInSet:{}", ncpu));
    v
}

const UNKNOWN_NAMES: [&str; 4] = ["", "Threads", "threads ", "no_such_option"];

/// One `set_from_string` step on `o` (whose snapshot is `before`), checked against the model.
/// Returns the new snapshot and whether the call was expected to succeed.
fn check_step(o: &mut Options, before: &Snap, name: &str, val: &str, ncpu: u16) -> Result<(Snap, bool), (String, String)> {
    let ty = before.iter().find(|e| e.0 == name).map(|e| e.1);
    let expect: Option<String> = match ty {
        None => None, // unknown option name: "false otherwise"
        Some(ty) => match ref_parse(ty, val) {
            Ok(v) if ref_valid(name, &v, ncpu) => Some(v.dbg()),
            _ => None,
        },
    };
    let cls = |c: &str| format!("set_from_string:{}:{}", if ty.is_some() { name } else { "<unknown-name>" }, c);
    let r = match catch(|| o.set_from_string(name, val)) {
        Ok(r) => r,
        Err(p) => return Err((cls("panic"), format!("set_from_string({:?}, {:?}) panicked: {}", name, val, p))),
    };
    let after = options_snapshot(o);
    let changed: Vec<String> = before.iter().zip(after.iter()).filter(|(a, b)| a != b).map(|(a, b)| format!("{}: {} -> {}", a.0, a.2, b.2)).collect();
    match (r, &expect) {
        (false, None) => {
            if !changed.is_empty() {
                return Err((cls("false-but-changed"), format!("set_from_string({:?}, {:?}) = false but options changed: {}", name, val, changed.join("; "))));
            }
        }
        (true, None) => {
            return Err((cls("true-for-bad-value"), format!("set_from_string({:?}, {:?}) = true but the value does not parse or fails validation (changed: {})", name, val, changed.join("; "))));
        }
        (false, Some(e)) => {
            return Err((cls("false-for-valid-value"), format!("set_from_string({:?}, {:?}) = false but the value parses to {} and validates", name, val, e)));
        }
        (true, Some(e)) => {
            for (a, b) in before.iter().zip(after.iter()) {
                if b.0 == name {
                    if b.2 != *e {
                        return Err((cls("true-but-wrong-value"), format!("set_from_string({:?}, {:?}) = true but the option holds {} instead of {}", name, val, b.2, e)));
                    }
                } else if a != b {
                    return Err((cls("changed-another-option"), format!("set_from_string({:?}, {:?}) changed {}: {} -> {}", name, val, a.0, a.2, b.2)));
                }
            }
        }
    }
    Ok((after, expect.is_some()))
}

/// Run one history from the default options.  Ok: (number of steps expected to succeed, whether
/// a failing step ran on a state an earlier successful step had changed).
fn check_history(base: &Options, hist: &[(String, String)], ncpu: u16) -> Result<(usize, bool), (String, String)> {
    let mut o = base.clone();
    let first = options_snapshot(&o);
    let mut snap = first.clone();
    let mut ok = 0;
    let mut collide = false;
    for (n, v) in hist {
        let (s, good) = check_step(&mut o, &snap, n, v, ncpu)?;
        if good {
            ok += 1;
        } else if snap != first {
            collide = true;
        }
        snap = s;
    }
    Ok((ok, collide))
}

fn hist_json(h: &[(String, String)]) -> Value {
    json!({"part": "set", "history": h.iter().map(|(n, v)| json!([n, v])).collect::<Vec<_>>()})
}

/// The typed API: `MMTKOption::set` "Returns true if the value is valid, and we set the option to
/// the value": a fixed sequence of valid and invalid typed values on one `Options`.
fn typed_sets(run: &mut Run) -> u64 {
    let mut typed = 0u64;
    {
        let mut o = Options::default();
        let mut chk = |o: &mut Options, what: &str, r: bool, want_ok: bool, before: Snap, field: &str, want: String, run: &mut Run| {
            typed += 1;
            let after = options_snapshot(o);
            let good = if want_ok {
                r && after.iter().zip(before.iter()).all(|(a, b)| if a.0 == field { a.2 == want } else { a == b })
            } else {
                !r && after == before
            };
            if !good {
                run.violation(
                    format!("typed_set:{}:{}", field, if want_ok { "valid-value-not-set" } else { "invalid-value-not-rejected-cleanly" }),
                    format!("{} returned {} and left {} = {:?}", what, r, field, after.iter().find(|e| e.0 == field).map(|e| e.2.clone())),
                    json!({"part": "typed"}),
                );
            }
        };
        for v in [7usize, 0, 1, 0] {
            let b = options_snapshot(&o);
            let r = o.threads.set(v);
            chk(&mut o, &format!("threads.set({})", v), r, v > 0, b, "threads", format!("{:?}", v), run);
        }
        for v in [50usize, 51, 0, 51] {
            let b = options_snapshot(&o);
            let r = o.immix_defrag_headroom_percent.set(v);
            chk(&mut o, &format!("immix_defrag_headroom_percent.set({})", v), r, v <= 50, b, "immix_defrag_headroom_percent", format!("{:?}", v), run);
        }
        for (v, ok) in [
            (GCTriggerSelector::DynamicHeapSize(1, 2), true),
            (GCTriggerSelector::DynamicHeapSize(2, 1), false),
            (GCTriggerSelector::FixedHeapSize(0), false),
            (GCTriggerSelector::Delegated, true),
            (GCTriggerSelector::FixedHeapSize(0), false),
        ] {
            let b = options_snapshot(&o);
            let r = o.gc_trigger.set(v);
            chk(&mut o, &format!("gc_trigger.set({:?})", v), r, ok, b, "gc_trigger", format!("{:?}", v), run);
        }
        for (v, ok) in [
            (NurserySize::Bounded { min: 2, max: 1 }, false),
            (NurserySize::Fixed(4096), true),
            (NurserySize::ProportionalBounded { min: 0.0, max: 1.0 }, false),
            (NurserySize::ProportionalBounded { min: 0.5, max: 1.0 }, true),
            (NurserySize::ProportionalBounded { min: 0.5, max: 1.5 }, false),
        ] {
            let b = options_snapshot(&o);
            let r = o.nursery.set(v);
            chk(&mut o, &format!("nursery.set({:?})", v), r, ok, b, "nursery", format!("{:?}", v), run);
        }
    }
    typed
}

fn part2(run: &mut Run, table: &[(&'static str, &'static str)]) -> (u64, u64, u64) {
    let ncpu = OS::get_total_num_cpus();
    let pool = value_pool(ncpu);
    let mut steps: Vec<(String, String)> = vec![];
    for n in table.iter().map(|t| t.0).chain(UNKNOWN_NAMES.iter().cloned()) {
        for v in &pool {
            steps.push((n.to_string(), v.clone()));
        }
    }
    let n = steps.len();
    // histories: every single step, then every ordered pair; chunked by first step
    struct Out {
        hist: u64,
        calls: u64,
        collide: u64,
        succ_then_fail: u64,
        viol: Vec<(String, String, Value)>,
        violating: u64,
    }
    let results: Mutex<Vec<Option<Out>>> = Mutex::new((0..n).map(|_| None).collect());
    let next = AtomicUsize::new(0);
    let steps_ref = &steps;
    let base_o = Options::default();
    let base = &base_o;
    std::thread::scope(|sc| {
        for _ in 0..run.jobs.max(1) {
            sc.spawn(|| loop {
                let a = next.fetch_add(1, Ordering::SeqCst);
                if a >= n {
                    break;
                }
                let mut out = Out { hist: 0, calls: 0, collide: 0, succ_then_fail: 0, viol: vec![], violating: 0 };
                let one = |h: &[(String, String)], out: &mut Out| {
                    out.hist += 1;
                    out.calls += h.len() as u64;
                    match check_history(base, h, ncpu) {
                        Ok((ok, collide)) => {
                            if collide {
                                out.collide += 1;
                            }
                            if ok >= 1 && ok < h.len() {
                                out.succ_then_fail += 1;
                            }
                        }
                        Err((sig, msg)) => {
                            out.violating += 1;
                            if !out.viol.iter().any(|v| v.0 == sig) {
                                out.viol.push((sig, msg, hist_json(h)));
                            }
                        }
                    }
                };
                one(&steps_ref[a..a + 1], &mut out);
                for b in 0..n {
                    let h = [steps_ref[a].clone(), steps_ref[b].clone()];
                    one(&h, &mut out);
                }
                results.lock().unwrap()[a] = Some(out);
            });
        }
    });
    let (mut hist, mut calls, mut collide, mut mixed) = (0, 0, 0, 0);
    for r in results.into_inner().unwrap() {
        let r = r.unwrap();
        hist += r.hist;
        calls += r.calls;
        collide += r.collide;
        mixed += r.succ_then_fail;
        let extra = r.violating.saturating_sub(r.viol.len() as u64);
        for (s, m, c) in r.viol {
            run.violation(s, m, c);
        }
        if extra > 0 {
            run.add("violating_executions_total", extra);
        }
    }
    let typed = typed_sets(run);
    run.set("part2_option_names", table.len() as u64);
    run.set("part2_unknown_names", UNKNOWN_NAMES.len() as u64);
    run.set("part2_values", pool.len() as u64);
    run.set("part2_histories", hist);
    run.set("part2_failed_set_on_changed_state", collide);
    run.set("part2_typed_set_calls", typed);
    run.sample(json!({"history": [["threads", "4096"], ["threads", "0"]], "outcome": format!("{:?}", check_history(base, &[("threads".into(), "4096".into()), ("threads".into(), "0".into())], ncpu))}));
    run.set("part2_histories_with_success_and_failure", mixed);
    (hist, calls + typed, collide)
}

// ------------------------------------------------------------------------------------------
// Part 3: bulk setting
// ------------------------------------------------------------------------------------------

const BULK_PAIRS: [&str; 12] = [
    "threads=4",
    "threads=0",
    "stress_factor=4096",
    "stress_factor=x",
    "plan=Immix",
    "no_finalizer=true",
    "gc_trigger=FixedHeapSize:1m",
    "nursery=Fixed:8192",
    "threads",
    "threads=1=2",
    "threads=",
    "immix_defrag_headroom_percent=51",
];
const BULK_SEPS: [&str; 4] = [" ", ",", " , ", "\n\t"];
const BULK_INITS: [&[(&str, &str)]; 2] = [&[], &[("threads", "7"), ("plan", "SemiSpace"), ("stress_factor", "1")]];

/// Silence stderr (the bulk setter prints a warning per failed pair) for the duration of `f`.
fn with_quiet_stderr<R>(f: impl FnOnce() -> R) -> R {
    unsafe {
        let saved = libc::dup(2);
        let null = libc::open(c"/dev/null".as_ptr(), libc::O_WRONLY);
        if saved >= 0 && null >= 0 {
            libc::dup2(null, 2);
        }
        let r = f();
        if saved >= 0 {
            libc::dup2(saved, 2);
            libc::close(saved);
        }
        if null >= 0 {
            libc::close(null);
        }
        r
    }
}

/// Ok(true) when at least one pair failed after an earlier pair had succeeded.
fn check_bulk(default: &Options, init: &[(String, String)], pairs: &[String], seps: &[String], lead: &str, trail: &str) -> Result<bool, (String, String)> {
    let mut base = default.clone();
    for (n, v) in init {
        if !base.set_from_string(n, v) {
            machinery_failure("bulk: initial setting rejected");
        }
    }
    let mut text = String::from(lead);
    for (i, p) in pairs.iter().enumerate() {
        if i > 0 {
            text.push_str(&seps[i - 1]);
        }
        text.push_str(p);
    }
    text.push_str(trail);
    // folding the real set_from_string over the pairs, in order
    let mut stop = base.clone(); // stops at the first failure
    let mut cont = base.clone(); // carries on after a failure
    let mut all_ok = true;
    let mut mixed = false;
    let mut any_ok = false;
    for p in pairs {
        let kv: Vec<&str> = p.split('=').collect();
        if kv.len() == 2 {
            cont.set_from_string(kv[0], kv[1]);
        }
        if all_ok {
            let ok_stop = kv.len() == 2 && stop.set_from_string(kv[0], kv[1]);
            if !ok_stop {
                all_ok = false;
                if any_ok {
                    mixed = true;
                }
            } else {
                any_ok = true;
            }
        }
    }
    let mut o = base.clone();
    let r = match catch(|| o.set_bulk_from_string(&text)) {
        Ok(r) => r,
        Err(p) => return Err(("set_bulk_from_string:panic".into(), format!("set_bulk_from_string({:?}) panicked: {}", text, p))),
    };
    if r != all_ok {
        return Err((
            "set_bulk_from_string:wrong-result".into(),
            format!("set_bulk_from_string({:?}) = {} but folding set_from_string over the pairs gives {}", text, r, all_ok),
        ));
    }
    let got = options_snapshot(&o);
    if got != options_snapshot(&stop) && got != options_snapshot(&cont) {
        let want = options_snapshot(&stop);
        let diff: Vec<String> = got.iter().zip(want.iter()).filter(|(a, b)| a != b).map(|(a, b)| format!("{}: bulk {} / fold {}", a.0, a.2, b.2)).collect();
        return Err(("set_bulk_from_string:state-differs-from-fold".into(), format!("set_bulk_from_string({:?}): {}", text, diff.join("; "))));
    }
    Ok(mixed)
}

fn bulk_case(init: usize, pairs: &[String], seps: &[String], lead: &str, trail: &str) -> Value {
    json!({"part": "bulk", "init": init, "pairs": pairs, "seps": seps, "lead": lead, "trail": trail})
}

fn part3(run: &mut Run) -> (u64, u64) {
    let mut lists = 0u64;
    let mut mixed = 0u64;
    let default = Options::default();
    with_quiet_stderr(|| {
        for (ii, init) in BULK_INITS.iter().enumerate() {
            let init_v: Vec<(String, String)> = init.iter().map(|(a, b)| (a.to_string(), b.to_string())).collect();
            for len in 0..=3usize {
                let total = BULK_PAIRS.len().pow(len as u32);
                let gaps = len.saturating_sub(1);
                for code in 0..total {
                    let mut c = code;
                    let mut pairs = vec![];
                    for _ in 0..len {
                        pairs.push(BULK_PAIRS[c % BULK_PAIRS.len()].to_string());
                        c /= BULK_PAIRS.len();
                    }
                    for sc in 0..BULK_SEPS.len().pow(gaps as u32) {
                        let mut s = sc;
                        let mut seps = vec![];
                        for _ in 0..gaps {
                            seps.push(BULK_SEPS[s % BULK_SEPS.len()].to_string());
                            s /= BULK_SEPS.len();
                        }
                        // leading / trailing separators only with the first separator choice
                        let edges: &[(&str, &str)] = if sc == 0 { &[("", ""), (" ", ","), (",", " ")] } else { &[("", "")] };
                        for (lead, trail) in edges {
                            lists += 1;
                            match check_bulk(&default, &init_v, &pairs, &seps, lead, trail) {
                                Ok(m) => {
                                    if m {
                                        mixed += 1;
                                    }
                                }
                                Err((sig, msg)) => run.violation(sig, msg, bulk_case(ii, &pairs, &seps, lead, trail)),
                            }
                        }
                    }
                }
            }
        }
    });
    run.set("part3_bulk_strings", lists);
    run.set("part3_failure_after_success", mixed);
    run.sample(json!({"bulk": "threads=4,stress_factor=x plan=Immix", "outcome": format!("{:?}", with_quiet_stderr(|| check_bulk(&default, &[], &["threads=4".into(), "stress_factor=x".into(), "plan=Immix".into()], &[",".into(), " ".into()], "", "")))}));
    (lists, mixed)
}

// ------------------------------------------------------------------------------------------

pub fn run(run: &mut Run) {
    let table = option_table();
    let t1 = part1(run);
    let w1 = run.start.elapsed().as_secs_f64();
    let (hist, calls2, collide) = part2(run, &table);
    let w2 = run.start.elapsed().as_secs_f64();
    let (lists, mixed) = part3(run);
    let w3 = run.start.elapsed().as_secs_f64();
    run.set("part_wall_s", json!([(w1 * 10.0).round() / 10.0, ((w2 - w1) * 10.0).round() / 10.0, ((w3 - w2) * 10.0).round() / 10.0]));
    run.set("states", t1.strings + hist + lists);
    run.set("transitions", t1.calls + calls2 + lists);
    run.set("evaluations", t1.compared + calls2 + lists);
    run.set("traces_validated_against_impl", t1.compared + calls2 + lists);
    run.set("distinct_nontrivial", t1.ref_accepts + t1.ref_overflow + collide + mixed);
    run.set("max_depth", sweeps(run).iter().map(|s| s.max_len).max().unwrap_or(0) as u64);
    run.set("exhaustive", true);
    run.set(
        "rule",
        "part 1: every token sequence of the stated sweeps through FromStr of the option type and through set_from_string, against the reference grammar; \
         part 2: every history of 1 and 2 set_from_string calls over (all option names + 4 unknown names) x value pool, whole-Options snapshot compared after every call; \
         part 3: every list of <= 3 pairs from the bulk pool x separators x 2 initial states, against folding set_from_string. \
         non-trivial = (string, parser) cases the reference accepts or rejects only for overflow + histories where a failing set ran on a state changed by an earlier successful set + bulk strings with a failing pair after a successful one",
    );
    run.assume("mmtk-core is built without the perf_counter feature: work_perf_events, phase_perf_events and perf_exclude_kernel fail validation for every value (as their option-table validators state)");
    run.assume("Options equality is observed through the Debug rendering of every option value (hook verif_snapshot); validators are fn pointers fixed at construction");
    run.assume("number syntax inside nursery / cpu-list / plain usize values is Rust's FromStr grammar (optional '+', ASCII digits; f64 per the std documentation), since the documentation is silent and the code delegates to it; f64 rounding is taken from std");
    run.assume("read_env_var_settings and unknown keys in set_bulk_from_string (documented panic) are out of scope");
}

pub fn replay(case: &Value, run: &mut Run) {
    let ncpu = OS::get_total_num_cpus();
    let strs = |v: &Value| -> Vec<String> { v.as_array().map(|a| a.iter().map(|x| x.as_str().unwrap_or("").to_string()).collect()).unwrap_or_default() };
    match case["part"].as_str().unwrap_or("") {
        "parse" => {
            let kind = Kind::from_name(case["option"].as_str().unwrap_or(""));
            let mut p = Probe::new();
            let mut t = Tally::default();
            check_string(&mut p, kind, case["value"].as_str().unwrap_or(""), &mut t, true);
            for (s, m, c) in t.violations {
                run.violation(s, m, c);
            }
        }
        "set" => {
            let h: Vec<(String, String)> = case["history"].as_array().map(|a| a.iter().map(|p| (p[0].as_str().unwrap_or("").to_string(), p[1].as_str().unwrap_or("").to_string())).collect()).unwrap_or_default();
            if let Err((s, m)) = check_history(&Options::default(), &h, ncpu) {
                run.violation(s, m, case.clone());
            }
        }
        "bulk" => {
            let init: Vec<(String, String)> = BULK_INITS[case["init"].as_u64().unwrap_or(0) as usize].iter().map(|(a, b)| (a.to_string(), b.to_string())).collect();
            let r = with_quiet_stderr(|| check_bulk(&Options::default(), &init, &strs(&case["pairs"]), &strs(&case["seps"]), case["lead"].as_str().unwrap_or(""), case["trail"].as_str().unwrap_or("")));
            if let Err((s, m)) = r {
                run.violation(s, m, case.clone());
            }
        }
        "typed" => {
            typed_sets(run);
        }
        _ => machinery_failure("C39 replay: unknown case"),
    }
}
