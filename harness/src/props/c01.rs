//! C01 — a collection preserves every reachable object and the reachable graph.
//! All mutator programs up to a depth over {alloc small/medium/large, write field through the
//! barrier, drop root, nursery/normal GC, full GC, bind/destroy a second mutator} per plan, run
//! on a real MMTK instance; after every collection the real heap is walked from the real roots
//! and compared with the shadow heap (ids, sizes, payload bytes, field targets, identity).

use crate::common::{Run, Tier};
use crate::progs::{Alphabet, Op, ProgFacts};
use crate::shadow_check::Profile;
use crate::shadowvm::{BootCfg, Sem, ALL_PLANS};
use serde_json::Value;

fn plans(_t: Tier) -> Vec<&'static str> {
    ALL_PLANS.to_vec()
}

fn alphabet(_plan: &str, v: &str, t: Tier) -> Alphabet {
    if v == "m2" {
        // two mutators: objects allocated by a mutator that is destroyed before the next
        // collection, handed over to the surviving mutator
        return Alphabet { sizes: vec![40, 264], sems: vec![Sem::Default], gc_kinds: vec![false, true], bursts: vec![], refused_allocs: false, align_bursts: false, eph_chains: vec![], two_mutators: true, pins: false, cross_writes: true, fields: 1 };
    }
    if !v.is_empty() {
        return Alphabet { sizes: vec![48], sems: vec![Sem::Default, Sem::from_name(v)], gc_kinds: vec![false, true], bursts: vec![(264, 100, 2)], refused_allocs: false, align_bursts: false, eph_chains: vec![], two_mutators: false, pins: false, cross_writes: false, fields: 1 };
    }
    Alphabet { sizes: vec![40, 264, 81920], sems: vec![Sem::Default], gc_kinds: vec![false, true], bursts: vec![], refused_allocs: false, align_bursts: false, eph_chains: vec![], two_mutators: t == Tier::Thorough, pins: false, cross_writes: true, fields: 2 }
}

fn depth(plan: &str, v: &str, t: Tier) -> usize {
    if !v.is_empty() || v == "m2" {
        return match (plan, t) {
            ("NoGC", _) => 2,
            ("MarkCompact", Tier::Quick) | ("PageProtect", Tier::Quick) => 3,
            (_, Tier::Quick) => 4,
            ("MarkCompact", Tier::Thorough) | ("PageProtect", Tier::Thorough) => 4,
            (_, Tier::Thorough) => 5,
        };
    }
    match (plan, t) {
        ("NoGC", _) => 3,
        ("MarkCompact", Tier::Quick) | ("PageProtect", Tier::Quick) => 3,
        ("MarkCompact", Tier::Thorough) | ("PageProtect", Tier::Thorough) => 4,
        (_, Tier::Quick) => 4,
        (_, Tier::Thorough) => 5,
    }
}

/// "" = the main exploration (Default semantics, deepest); one further variant per non-default
/// semantics (shallower), each in its own process.
fn variants(_plan: &str, _t: Tier) -> Vec<&'static str> {
    vec!["", "m2", "Immortal", "Los", "NonMoving"]
}

fn boot(plan: &str, _v: &str, _t: Tier) -> BootCfg {
    let mut c = BootCfg::new(plan);
    if plan == "NoGC" {
        // nothing is ever reclaimed: the heap must hold everything all programs allocate
        c.heap_bytes = 2 << 30;
    }
    c
}

pub fn owns(sig: &str) -> bool {
    sig.starts_with("graph:") || sig.starts_with("crash:") || sig.starts_with("panic:") || sig.starts_with("gc:")
}

fn nontrivial(f: &ProgFacts) -> bool {
    f.live_and_dead > 0
}

fn filter(v: &str, p: &[Op]) -> bool {
    v.is_empty() || v == "m2" && p.iter().any(|o| matches!(o, Op::Bind1)) || p.iter().any(|o| matches!(o, Op::Alloc { sem, .. } if *sem != Sem::Default))
}

pub const PROFILE: Profile = Profile {
    id: "C01",
    plans,
    variants,
    alphabet,
    depth,
    boot,
    owns,
    nontrivial,
    filter,
    rule: "every program of length <= depth (main variant) over {alloc(40 B | 264 B | 80 KiB -> LOS) into the lowest empty root, write root.field <- root|null through the barrier, drop root, GC(normal), GC(exhaustive)(, bind/destroy second mutator: thorough)} per plan; plus a two-mutator variant (alloc by either mutator, objects handed from the second mutator to the first, bind/destroy, cross-mutator writes, drop, GC x2; depth 4/5), plus one variant per non-default semantics S in {Immortal, Los, NonMoving} (own process, depth 4 quick / 5 thorough) over {alloc 48 B Default|S, burst(264 B x100 keep every 2nd), write root.f0, drop, GC x2}; each program followed by a closing exhaustive GC, run back to back on one real MMTK instance (1 GC worker) so later programs start from non-initial heap states; after every collection the real heap is walked from the real root slots and compared with the shadow heap. states = distinct canonical shadow heaps at program end; transitions = mutator operations executed; distinct_nontrivial = programs in which some collection found both live and dead objects",
    post: None,
    timeout_s: |t| t.pick(300, 3000),
};

pub fn run(run: &mut Run) {
    crate::shadow_check::run(&PROFILE, run);
    run.assume("one GC worker (deterministic schedule); the schedule-sensitive core (concurrent forwarding/marking) is C17/C18's");
    run.assume("objects have two reference fields; sizes 40 B, 264 B, 80 KiB");
}

pub fn replay(case: &Value, run: &mut Run) {
    crate::shadow_check::replay(&PROFILE, case, run);
}

pub fn child(args: &[String]) {
    crate::shadow_check::child(&PROFILE, args);
}
