//! C20 side metadata = array of independent fixed-width integers: BFS to closure over operation
//! histories on six fields (four consecutive regions, one in the next metadata byte/word, one
//! far away) of real `SideMetadataSpec`s of every width and several region sizes.

use crate::common::Run;
use crate::metaops::{op_from_json, Access, Fetch, FieldLoc, MetaSubject};
use crate::seqx;
use mmtk::util::metadata::side_metadata::{verif_hooks, SideMetadataSpec};
use mmtk::util::Address;
use serde_json::{json, Value};
use std::sync::atomic::Ordering::SeqCst;
use std::sync::Once;

/// Data window used by the unit-level side-metadata subjects: low addresses, so that the metadata
/// of every spec shape lands near the start of the reserved range.  The data itself is never
/// touched.
pub const DATA_BASE: usize = 0x40_0000;

static INIT: Once = Once::new();

pub fn init_side_metadata() {
    INIT.call_once(|| {
        mmtk::util::test_private::initialize_side_metadata::<crate::vm::VerifVM>();
    });
}

#[derive(Clone, Debug)]
pub struct Cfg {
    pub log_bits: usize,
    pub log_region: usize,
    pub background: u8,
    pub nfields: usize,
    /// use the last byte of the region as the data address instead of the first
    pub inner: bool,
}

pub struct SideAccess {
    cfg: Cfg,
    spec: SideMetadataSpec,
    /// data address (region start) of each field
    regions: Vec<Address>,
    meta_base: Address,
}

pub fn make_spec(log_bits: usize, log_region: usize) -> SideMetadataSpec {
    SideMetadataSpec { name: "verif-c20", is_global: true, offset: 0, log_num_of_bits: log_bits, log_bytes_in_region: log_region }
}

/// Independent address computation: field k (region index) of a contiguous spec at offset 0
/// occupies bits [k << log_bits, (k+1) << log_bits) of the metadata area.
pub fn field_loc(meta_base: Address, log_bits: usize, log_region: usize, data: Address) -> FieldLoc {
    let region_index = data.as_usize() >> log_region;
    let bit_index = region_index << log_bits;
    FieldLoc { byte: meta_base + (bit_index >> 3), shift: (bit_index & 7) as u32, bits: 1 << log_bits }
}

impl SideAccess {
    pub fn new(cfg: Cfg) -> SideAccess {
        init_side_metadata();
        let spec = make_spec(cfg.log_bits, cfg.log_region);
        let (meta_base, _) = verif_hooks::reserved_range();
        let rs = 1usize << cfg.log_region;
        let base = unsafe { Address::from_usize(DATA_BASE) };
        // regions per metadata byte (>= 1) and per metadata word
        let per_byte = if cfg.log_bits < 3 { 8 >> cfg.log_bits } else { 1 };
        let mut regions = vec![base, base + rs, base + 2 * rs, base + 3 * rs];
        // the first region of the next metadata byte (sub-byte widths) / the neighbour word
        regions.push(base + rs * per_byte.max(4));
        // far: 4096 metadata bytes further
        let regions_per_4k = (4096usize * 8) >> cfg.log_bits;
        regions.push(base + rs * regions_per_4k);
        regions.truncate(cfg.nfields);
        // map the metadata for the whole data range touched
        let data_end = *regions.last().unwrap() + rs;
        let bytes = (data_end - base + 4095) & !4095;
        let start = base.align_down(4096);
        assert!(verif_hooks::map_metadata(&[spec], &[], start, bytes + 2 * 4096 * rs.max(1).min(1)), "cannot map side metadata");
        // one more page before and after for the watch margin
        let first = field_loc(meta_base, cfg.log_bits, cfg.log_region, base).byte;
        let page = first.align_down(4096);
        let _ = page;
        SideAccess { cfg, spec, regions, meta_base }
    }
    fn addr(&self, f: usize) -> Address {
        if self.cfg.inner {
            self.regions[f] + ((1usize << self.cfg.log_region) - 1)
        } else {
            self.regions[f]
        }
    }
}

macro_rules! by_width {
    ($self:ident, $t:ident, $body:expr) => {
        match $self.cfg.log_bits {
            0..=3 => {
                type $t = u8;
                $body
            }
            4 => {
                type $t = u16;
                $body
            }
            5 => {
                type $t = u32;
                $body
            }
            _ => {
                type $t = u64;
                $body
            }
        }
    };
}

impl Access for SideAccess {
    fn describe(&self) -> Value {
        json!({"log_bits": self.cfg.log_bits, "log_region": self.cfg.log_region, "background": self.cfg.background, "fields": self.cfg.nfields, "inner": self.cfg.inner})
    }
    fn nfields(&self) -> usize {
        self.regions.len()
    }
    fn loc(&self, f: usize) -> FieldLoc {
        field_loc(self.meta_base, self.cfg.log_bits, self.cfg.log_region, self.regions[f])
    }
    fn supports_set_zero(&self) -> bool {
        true
    }
    fn windows(&self) -> Vec<(Address, usize)> {
        // one window around the near fields, one around the far field; 16 bytes of margin
        let fb = |f: usize| {
            let l = self.loc(f);
            (l.byte, l.byte + ((l.shift + l.bits + 7) / 8) as usize)
        };
        let near_last = self.regions.len().min(5) - 1;
        let page0 = fb(0).0.align_down(4096);
        let lo = if fb(0).0 - page0 >= 16 { fb(0).0 - 16usize } else { page0 };
        let mut w = vec![(lo, fb(near_last).1 + 16usize - lo)];
        if self.regions.len() > 5 {
            let (s, e) = fb(5);
            w.push((s - 16usize, e + 16usize - (s - 16usize)));
        }
        w
    }
    fn background(&self) -> u8 {
        self.cfg.background
    }
    fn load(&self, f: usize, atomic: bool, _masked: bool) -> u64 {
        let a = self.addr(f);
        by_width!(self, T, {
            if atomic {
                self.spec.load_atomic::<T>(a, SeqCst) as u64
            } else {
                unsafe { self.spec.load::<T>(a) as u64 }
            }
        })
    }
    fn store(&self, f: usize, v: u64, atomic: bool, _masked: bool) {
        let a = self.addr(f);
        by_width!(self, T, {
            if atomic {
                self.spec.store_atomic::<T>(a, v as T, SeqCst)
            } else {
                unsafe { self.spec.store::<T>(a, v as T) }
            }
        })
    }
    fn cas(&self, f: usize, old: u64, new: u64, _masked: bool) -> Result<u64, u64> {
        let a = self.addr(f);
        by_width!(self, T, { self.spec.compare_exchange_atomic::<T>(a, old as T, new as T, SeqCst, SeqCst).map(|x| x as u64).map_err(|x| x as u64) })
    }
    fn fetch(&self, f: usize, kind: Fetch, v: u64) -> u64 {
        let a = self.addr(f);
        by_width!(self, T, {
            (match kind {
                Fetch::Add => self.spec.fetch_add_atomic::<T>(a, v as T, SeqCst),
                Fetch::Sub => self.spec.fetch_sub_atomic::<T>(a, v as T, SeqCst),
                Fetch::And => self.spec.fetch_and_atomic::<T>(a, v as T, SeqCst),
                Fetch::Or => self.spec.fetch_or_atomic::<T>(a, v as T, SeqCst),
            }) as u64
        })
    }
    fn fetch_update(&self, f: usize, new: Option<u64>) -> Result<u64, u64> {
        let a = self.addr(f);
        by_width!(self, T, { self.spec.fetch_update_atomic::<T, _>(a, SeqCst, SeqCst, |_x: T| new.map(|n| n as T)).map(|x| x as u64).map_err(|x| x as u64) })
    }
    fn set_zero(&self, f: usize, atomic: bool) {
        let a = self.addr(f);
        if atomic {
            self.spec.set_zero_atomic(a, SeqCst)
        } else {
            unsafe { self.spec.set_zero(a) }
        }
    }
}

fn cfg_json(c: &Cfg) -> Value {
    json!({"log_bits": c.log_bits, "log_region": c.log_region, "background": c.background, "nfields": c.nfields, "inner": c.inner})
}

fn cfg_from_json(v: &Value) -> Cfg {
    Cfg {
        log_bits: v["log_bits"].as_u64().unwrap() as usize,
        log_region: v["log_region"].as_u64().unwrap() as usize,
        background: v["background"].as_u64().unwrap() as u8,
        nfields: v["nfields"].as_u64().unwrap() as usize,
        inner: v["inner"].as_bool().unwrap(),
    }
}

pub fn run(run: &mut Run) {
    init_side_metadata();
    let thorough = run.tier == crate::common::Tier::Thorough;
    let mut cfgs = vec![];
    let regions: &[usize] = if thorough { &[3, 4, 8, 12] } else { &[3, 12] };
    for log_bits in 0..=6 {
        for &log_region in regions {
            for (bi, background) in [0x00u8, 0xff, 0xa5].into_iter().enumerate() {
                // six fields: four consecutive regions (sharing a metadata byte for sub-byte
                // widths), the first region of the next byte/word, one 4096 metadata bytes away
                let nfields = if log_bits >= 5 { 5 } else { 6 };
                cfgs.push(Cfg { log_bits, log_region, background, nfields, inner: bi == 1 });
            }
        }
    }
    // all configurations use the same metadata bytes (offset 0, same data window): run them one
    // after the other
    run.jobs = 1;
    let stats = seqx::bfs_many(run, &cfgs, |c| MetaSubject::new(SideAccess::new(c.clone()), "side"), cfg_json, 1000, 5_000_000);
    for (c, st) in cfgs.iter().zip(stats.iter()).filter(|(c, _)| c.nfields >= 5).take(2) {
        run.sample(json!({"config": cfg_json(c), "states": st.states, "transitions": st.transitions, "closed": st.closed,
            "example_history": [{"op":"store","f":0,"v":1,"atomic":true,"masked":false},{"op":"fetch","f":1,"kind":"Add","v":1}]}));
    }
    // concurrent neighbours: every atomic accessor against an atomic update of ANOTHER field in
    // the same metadata byte, all interleavings at the hardware atomics (engine `baton`)
    {
        use super::metaconc::{race_probe, run_pairs, Kind::*};
        // (compare_exchange on a sub-byte field may fail spuriously when a neighbour changes the byte
        // -- documented weak semantics, its callers loop -- so it is not offered here)
        run_pairs(run, &[Store, FetchOr, FetchAnd, FetchAdd, FetchSub, FetchUpdate], &[Store, FetchOr, FetchUpdate], thorough);
        // sampled companion (free-running threads; not part of the coverage claim)
        race_probe(run, &[Store, FetchOr, FetchAnd, FetchAdd, FetchUpdate], 100_000);
    }
    run.set("configurations", cfgs.len() as u64);
    run.set("rule", "per (log_bits 0..6, log_region {3,4,8,12}, background {00,ff,a5}): BFS to closure over load/store (atomic and not)/compare_exchange (matching and not)/fetch_add/sub (amounts chosen to land on each domain value, including wrap-around)/fetch_and/or/fetch_update (accept, refuse)/set_zero on 3-6 fields (consecutive regions sharing a metadata byte, the next byte, 4096 bytes away), value domain {0,1,max,0xA5..}; after every operation return value == previous field value and the metadata bytes +-16 around all fields == shadow image; plus, with the baton engine, all interleavings of one atomic accessor per thread on two different fields sharing a byte (both effects must be present at the end); non-trivial = the operated field has non-zero bits of another field or background in the same or an adjacent byte");
    run.assume("values passed to store/fetch ops are within the field width (asserted precondition of the accessors)");
    run.assume("histories are sequential except for the two-thread phase: one atomic accessor per thread on two different fields of one metadata byte (1/2/4-bit specs), all interleavings; more threads / longer concurrent histories are C18's");
}

pub fn replay(case: &Value, run: &mut Run) {
    init_side_metadata();
    if case["engine"] == "baton" {
        return super::metaconc::replay(case, run);
    }
    if case["engine"] == "race_probe" {
        return super::metaconc::replay_probe(case, run);
    }
    let c = cfg_from_json(&case["cfg"]);
    let s = MetaSubject::new(SideAccess::new(c), "side");
    let hist: Vec<_> = case["history"].as_array().unwrap().iter().map(op_from_json).collect();
    if let Err((i, m)) = seqx::replay(&s, &hist) {
        run.violation("replay", format!("step {}: {}", i, m), case.clone());
    }
}
