//! C24 side-metadata tables in use by one configuration never alias.
//!
//! Part A (real configurations of *this* build = feature set x compiled VM placement): one child
//! process per plan creates a real `MMTK<VerifVM>` instance and reads every space's
//! `SideMetadataContext` through a hook.  For each space (global + that space's local specs) and
//! for the union over the plan's spaces, the metadata address ranges must be pairwise disjoint
//! and inside the reserved side-metadata range; global specs must be the same in all spaces.
//!
//! Part B (placement space of the VM specs, complete): for all in-header/side choices of the six
//! VM specs and all declaration orders of the side ones, the specs are built with the real
//! `side_first()` / `side_after()` const fns (called at run time), the side metadata layout is
//! initialised for exactly these VM specs by the real layout code (one child process per
//! declaration, as the layout is once-per-process), and the whole table -- every core global and
//! local spec of `spec_defs.rs` plus the VM specs on side -- must be pairwise disjoint and inside
//! the reserved range.
//!
//! The range of a spec is computed from the real address translation: the metadata addresses of
//! the first and of the last region of the architectural address space `[0, 2^47)`.

use crate::common::{catch, emit_child_result, machinery_failure, run_children, Run, Tier};
use mmtk::util::heap::vm_layout::VMLayout;
use mmtk::util::metadata::side_metadata::{verif_hooks, SideMetadataSpec};
use mmtk::util::metadata::MetadataSpec;
use mmtk::util::options::{GCTriggerSelector, PlanSelector};
use mmtk::util::test_private::address_to_meta_address;
use mmtk::util::Address;
use mmtk::vm::*;
use serde_json::{json, Value};

const PLANS: [&str; 11] = ["NoGC", "SemiSpace", "GenCopy", "GenImmix", "MarkSweep", "PageProtect", "Immix", "MarkCompact", "Compressor", "StickyImmix", "ConcurrentImmix"];

fn plan_selector(name: &str) -> PlanSelector {
    match name {
        "NoGC" => PlanSelector::NoGC,
        "SemiSpace" => PlanSelector::SemiSpace,
        "GenCopy" => PlanSelector::GenCopy,
        "GenImmix" => PlanSelector::GenImmix,
        "MarkSweep" => PlanSelector::MarkSweep,
        "PageProtect" => PlanSelector::PageProtect,
        "Immix" => PlanSelector::Immix,
        "MarkCompact" => PlanSelector::MarkCompact,
        "Compressor" => PlanSelector::Compressor,
        "StickyImmix" => PlanSelector::StickyImmix,
        "ConcurrentImmix" => PlanSelector::ConcurrentImmix,
        _ => machinery_failure(&format!("unknown plan {}", name)),
    }
}

/// The build this check is compiled in (harness cargo features).
fn build_json() -> Value {
    let fs = if cfg!(feature = "fs_s3") {
        "s3"
    } else if cfg!(feature = "fs_s2") {
        "s2"
    } else if cfg!(feature = "fs_s1") {
        "s1"
    } else {
        "none"
    };
    json!({
        "feature_set": fs,
        "placement": crate::vm::PLACEMENT,
        "fs_s1": cfg!(feature = "fs_s1"),
        "fs_s2": cfg!(feature = "fs_s2"),
        "fs_s3": cfg!(feature = "fs_s3"),
        "vo_bit": cfg!(feature = "vo_bit"),
        "pinning": cfg!(feature = "pinning"),
        "placement_b": cfg!(feature = "placement_b"),
    })
}

fn build_tag() -> String {
    let b = build_json();
    format!("{}/{}", b["feature_set"].as_str().unwrap(), b["placement"].as_str().unwrap())
}

// ---------------------------------------------------------------------------------------------
// ranges

/// A spec with its metadata address range, relative to the base of the reserved range (the base
/// itself is chosen by the OS and differs between runs).
#[derive(Clone, Debug)]
struct Table {
    spec: SideMetadataSpec,
    /// `[start, end)` as offsets from the reserved base (can be negative only if broken)
    start: i128,
    end: i128,
}

fn kind(s: &SideMetadataSpec) -> &'static str {
    if s.name.starts_with("VMGlobal") {
        "vm_global"
    } else if s.name.starts_with("VMLocal") {
        "vm_local"
    } else if s.is_global {
        "core_global"
    } else {
        "core_local"
    }
}

/// The extent of the metadata addresses the real address translation produces for the data
/// addresses `[0, 2^LOG_ARCH_ADDRESS_SPACE)`.
fn table(spec: &SideMetadataSpec, base: Address) -> Table {
    let first = address_to_meta_address(spec, unsafe { Address::from_usize(0) });
    let last_data = unsafe { Address::from_usize((1usize << VMLayout::LOG_ARCH_ADDRESS_SPACE) - 1) };
    let last = address_to_meta_address(spec, last_data);
    let entry_bytes: usize = if spec.log_num_of_bits >= 3 { 1 << (spec.log_num_of_bits - 3) } else { 1 };
    Table {
        spec: *spec,
        start: first.as_usize() as i128 - base.as_usize() as i128,
        end: last.as_usize() as i128 + entry_bytes as i128 - base.as_usize() as i128,
    }
}

fn table_json(t: &Table) -> Value {
    json!({"name": t.spec.name, "global": t.spec.is_global, "offset": t.spec.offset, "log_bits": t.spec.log_num_of_bits, "log_region": t.spec.log_bytes_in_region,
           "range": [format!("{:#x}", t.start), format!("{:#x}", t.end)]})
}

fn describe(t: &Table) -> String {
    format!("{} [{:#x},{:#x})", t.spec.name, t.start, t.end)
}

struct Tally {
    pairs: u64,
    adjacent: u64,
    contained: u64,
    size_agrees: u64,
}

/// Pairwise disjointness + containment of a set of distinct specs.  `scope` names what the set
/// is (a space, a plan, the whole table); `ctx` goes into the message.
fn check_set(tables: &[Table], reserved: usize, scope: &str, ctx: &str, case: &Value, run: &mut Run, tally: &mut Tally) {
    for t in tables {
        if t.start >= 0 && t.end <= reserved as i128 && t.start < t.end {
            tally.contained += 1;
        } else {
            run.violation(
                format!("{}:outside_reserved:{}", scope, kind(&t.spec)),
                format!("[build {}] {}: {} is not inside the reserved side-metadata range [0x0,{:#x}) (offsets relative to the reserved base)", build_tag(), ctx, describe(t), reserved),
                case.clone(),
            );
        }
        // mmtk's own idea of the range size, the one `side_after` lays the next spec out with
        if verif_hooks::metadata_address_range_size(&t.spec) as i128 == t.end - t.start {
            tally.size_agrees += 1;
        }
    }
    for i in 0..tables.len() {
        for j in i + 1..tables.len() {
            let (a, b) = (&tables[i], &tables[j]);
            tally.pairs += 1;
            if a.start < b.end && b.start < a.end {
                let (mut ka, mut kb) = (kind(&a.spec), kind(&b.spec));
                if ka > kb {
                    std::mem::swap(&mut ka, &mut kb);
                }
                run.violation(
                    format!("{}:overlap:{}x{}", scope, ka, kb),
                    format!("[build {}] {}: {} and {} overlap (offsets relative to the reserved base)", build_tag(), ctx, describe(a), describe(b)),
                    case.clone(),
                );
            } else {
                // laid out back to back (up to the word alignment of `side_metadata_offset_after`):
                // any error in a size or in a predecessor makes exactly these pairs alias
                let gap = if a.end <= b.start { b.start - a.end } else { a.start - b.end };
                if gap < 8 {
                    tally.adjacent += 1;
                }
            }
        }
    }
}

fn dedup(specs: &[SideMetadataSpec]) -> Vec<SideMetadataSpec> {
    let mut out: Vec<SideMetadataSpec> = vec![];
    for s in specs {
        if !out.contains(s) {
            out.push(*s);
        }
    }
    out
}

fn sort_key(s: &SideMetadataSpec) -> (bool, usize, &'static str, usize, usize) {
    (!s.is_global, s.offset, s.name, s.log_num_of_bits, s.log_bytes_in_region)
}

fn finish_tally(run: &mut Run, tally: &Tally, configs: u64) {
    run.add("states", configs);
    run.add("evaluations", configs);
    run.add("traces_validated_against_impl", configs);
    run.add("transitions", tally.pairs);
    run.add("distinct_nontrivial", tally.adjacent);
    run.add("tables_inside_reserved", tally.contained);
    run.add("tables_whose_extent_equals_metadata_address_range_size", tally.size_agrees);
}

/// The hook list of `spec_defs.rs` must contain the `LAST_*` specs the layout is derived from (a
/// list that went stale when the table grew would silently shrink the checked table).
fn core_specs_checked() -> (Vec<SideMetadataSpec>, Vec<SideMetadataSpec>) {
    let (g, l) = verif_hooks::all_core_specs();
    let (lg, ll) = verif_hooks::last_core_specs();
    if !g.contains(&lg) || !l.contains(&ll) {
        machinery_failure("hook list of core specs does not contain LAST_GLOBAL/LAST_LOCAL_SIDE_METADATA_SPEC: update spec_defs.rs::verif_all_core_specs");
    }
    (g, l)
}

// ---------------------------------------------------------------------------------------------
// part A: the real contexts of one plan

fn check_plan(plan: &str, run: &mut Run) -> Vec<Value> {
    let case = json!({"part": "A", "plan": plan, "build": build_json()});
    if !<crate::vm::VerifVM as ObjectModel<crate::vm::VerifVM>>::GLOBAL_LOG_BIT_SPEC.is_on_side() {
        // part B takes "does this plan use the log bit" from the contexts observed here
        machinery_failure("the compiled VM binding declares the log bit in the header: which plans use it cannot be observed");
    }
    if <crate::vm::VerifVM as ObjectModel<crate::vm::VerifVM>>::LOCAL_FORWARDING_POINTER_SPEC.is_on_side() {
        // documented on VMLocalForwardingPointerSpec: "This metadata has to be stored in the
        // header" (on side it is a 2^47-byte table: the reservation cannot even be made)
        machinery_failure("the compiled VM binding declares the forwarding pointer on side, which mmtk-core documents as unsupported");
    }
    crate::vm::init_state();
    let mut builder = mmtk::MMTKBuilder::new_no_env_vars();
    builder.options.plan.set(plan_selector(plan));
    builder.options.gc_trigger.set(GCTriggerSelector::FixedHeapSize(64 << 20));
    builder.options.threads.set(1);
    let created = catch(|| mmtk::memory_manager::mmtk_init::<crate::vm::VerifVM>(&builder));
    let mmtk: &'static mmtk::MMTK<crate::vm::VerifVM> = match created {
        Ok(b) => Box::leak(b),
        Err(p) => {
            let first: String = p.lines().next().unwrap_or("").chars().take(300).collect();
            if p.contains("Overlapping metadata specs") || p.contains("outside reserved range") {
                // plan creation runs mmtk's own side-metadata sanity check: a rejection there is
                // an aliasing (or out-of-range) table set in a real configuration
                run.violation(
                    format!("partA:plan_creation_rejected_side_metadata:{}", plan),
                    format!("[build {}] creating plan {} panicked in side-metadata setup: {}", build_tag(), plan, first),
                    case,
                );
                run.add("states", 1);
                run.add("evaluations", 1);
                run.add("transitions", 1);
                run.add("traces_validated_against_impl", 1);
                run.add("distinct_nontrivial", 0);
                return vec![];
            }
            machinery_failure(&format!("mmtk_init for plan {} panicked: {} @ {}", plan, first, crate::common::last_panic_location()));
        }
    };
    let _ = crate::vm::MMTK_INSTANCE.set(mmtk);
    let (base, reserved) = verif_hooks::reserved_range();
    let spaces = mmtk::util::verif::c24::space_side_metadata_specs(mmtk);
    if spaces.is_empty() {
        machinery_failure(&format!("plan {} reports no spaces", plan));
    }
    let (core_g, core_l) = core_specs_checked();
    let mut tally = Tally { pairs: 0, adjacent: 0, contained: 0, size_agrees: 0 };
    let mut union: Vec<SideMetadataSpec> = vec![];
    let mut first_globals: Option<(String, Vec<SideMetadataSpec>)> = None;
    let mut space_summaries = vec![];
    let mut shapes = vec![];
    for (name, global, local) in &spaces {
        shapes.push(json!({
            "plan": plan,
            "space": name,
            "core_global": global.iter().filter(|s| !s.name.starts_with("VM")).map(|s| s.name).collect::<Vec<_>>(),
            "core_local": local.iter().filter(|s| !s.name.starts_with("VM")).map(|s| s.name).collect::<Vec<_>>(),
            "uses_log_bit": global.iter().any(|s| s.name == "VMGlobalLogBitSpec"),
        }));
        for s in global.iter().chain(local.iter()) {
            if !s.name.starts_with("VM") && !core_g.contains(s) && !core_l.contains(s) {
                machinery_failure(&format!("space {} of plan {} uses core spec {} that the hook list of spec_defs.rs does not contain", name, plan, s.name));
            }
        }
        let ctx = format!("plan {} space {}", plan, name);
        let active = dedup(&[global.clone(), local.clone()].concat());
        let tables: Vec<Table> = active.iter().map(|s| table(s, base)).collect();
        check_set(&tables, reserved, "partA:space", &ctx, &case, run, &mut tally);
        for s in &active {
            if !union.contains(s) {
                union.push(*s);
            }
        }
        // global specs are the plan's: the same in every space
        let mut g = dedup(global);
        g.sort_by_key(sort_key);
        match &first_globals {
            None => first_globals = Some((name.clone(), g)),
            Some((n0, g0)) => {
                if *g0 != g {
                    run.violation(
                        "partA:global_specs_differ_between_spaces".to_string(),
                        format!("[build {}] plan {}: global specs of space {} ({:?}) differ from those of space {} ({:?})", build_tag(), plan, name, g.iter().map(|s| s.name).collect::<Vec<_>>(), n0, g0.iter().map(|s| s.name).collect::<Vec<_>>()),
                        case.clone(),
                    );
                }
            }
        }
        space_summaries.push(json!({"space": name, "global": global.iter().map(|s| s.name).collect::<Vec<_>>(), "local": local.iter().map(|s| s.name).collect::<Vec<_>>()}));
    }
    // the configuration as a whole: every table any space of the plan reads or writes
    union.sort_by_key(sort_key);
    let tables: Vec<Table> = union.iter().map(|s| table(s, base)).collect();
    check_set(&tables, reserved, "partA:plan", &format!("plan {} (all spaces)", plan), &case, run, &mut tally);
    finish_tally(run, &tally, spaces.len() as u64 + 1);
    run.add("partA_spaces", spaces.len() as u64);
    run.add("partA_plans", 1);
    if plan == "GenImmix" || plan == "MarkSweep" {
        run.sample(json!({"part": "A", "plan": plan, "build": build_tag(), "reserved_bytes": format!("{:#x}", reserved), "spaces": space_summaries, "tables_of_plan": tables.iter().map(table_json).collect::<Vec<_>>()}));
    }
    shapes
}

// ---------------------------------------------------------------------------------------------
// part B: VM declarations

const KIND_NAMES: [&str; 6] = ["log_bit", "forwarding_pointer", "forwarding_bits", "mark_bit", "los_mark_nursery", "pinning_bit"];
const LOG: usize = 0;
const FWD_PTR: usize = 1;
const PIN: usize = 5;

/// The VM spec kinds this build registers (`initialize_side_metadata` lists the pinning bit only
/// with `object_pinning`).
fn kinds_in_build() -> Vec<usize> {
    (0..6).filter(|k| *k != PIN || cfg!(feature = "pinning")).collect()
}

/// Declare local spec `kind` on side: first of the local chain, or after `prev`.
fn declare_local(kind: usize, prev: Option<&MetadataSpec>) -> MetadataSpec {
    match (kind, prev) {
        (1, None) => *VMLocalForwardingPointerSpec::side_first().as_spec(),
        (1, Some(p)) => *VMLocalForwardingPointerSpec::side_after(p).as_spec(),
        (2, None) => *VMLocalForwardingBitsSpec::side_first().as_spec(),
        (2, Some(p)) => *VMLocalForwardingBitsSpec::side_after(p).as_spec(),
        (3, None) => *VMLocalMarkBitSpec::side_first().as_spec(),
        (3, Some(p)) => *VMLocalMarkBitSpec::side_after(p).as_spec(),
        (4, None) => *VMLocalLOSMarkNurserySpec::side_first().as_spec(),
        (4, Some(p)) => *VMLocalLOSMarkNurserySpec::side_after(p).as_spec(),
        (5, None) => *VMLocalPinningBitSpec::side_first().as_spec(),
        (5, Some(p)) => *VMLocalPinningBitSpec::side_after(p).as_spec(),
        _ => machinery_failure("bad local kind"),
    }
}

fn declare_in_header(kind: usize) -> MetadataSpec {
    match kind {
        0 => *VMGlobalLogBitSpec::in_header(0).as_spec(),
        1 => *VMLocalForwardingPointerSpec::in_header(0).as_spec(),
        2 => *VMLocalForwardingBitsSpec::in_header(0).as_spec(),
        3 => *VMLocalMarkBitSpec::in_header(0).as_spec(),
        4 => *VMLocalLOSMarkNurserySpec::in_header(0).as_spec(),
        5 => *VMLocalPinningBitSpec::in_header(0).as_spec(),
        _ => machinery_failure("bad kind"),
    }
}

/// One VM declaration: the log bit on side or not, and the local kinds on side in declaration
/// order.  Everything else is in the header.  `shapes` are the spaces observed in part A (which
/// core specs a space of a plan uses, and whether the plan uses the log bit).
fn check_declaration(log_on_side: bool, order: &[usize], shapes: &[Value], run: &mut Run) {
    let case = json!({"part": "B", "log_bit_on_side": log_on_side, "local_side_order": order, "build": build_json()});
    let kinds = kinds_in_build();
    let mut decl: Vec<(usize, MetadataSpec)> = vec![];
    // the only global VM spec: first (and last) of the global chain
    decl.push((LOG, if log_on_side { *VMGlobalLogBitSpec::side_first().as_spec() } else { declare_in_header(LOG) }));
    let mut prev: Option<MetadataSpec> = None;
    for &k in order {
        let s = declare_local(k, prev.as_ref());
        prev = Some(s);
        decl.push((k, s));
    }
    for &k in &kinds {
        if k != LOG && !order.contains(&k) {
            decl.push((k, declare_in_header(k)));
        }
    }
    // what initialize_side_metadata::<VM> does with the six constants of the binding
    decl.sort_by_key(|(k, _)| *k);
    let all: Vec<MetadataSpec> = decl.iter().map(|(_, s)| *s).collect();
    let vm_side = mmtk::util::verif::c24::extract_side_metadata(&all);
    let expected_side = order.len() + log_on_side as usize;
    if vm_side.len() != expected_side {
        run.violation(
            "partB:extract_side_metadata_miscounts".to_string(),
            format!("[build {}] extract_side_metadata returned {} specs for a declaration with {} specs on side", build_tag(), vm_side.len(), expected_side),
            case.clone(),
        );
    }
    if let Err(p) = catch(|| verif_hooks::initialize_with_vm_side_specs(&vm_side)) {
        machinery_failure(&format!("side metadata initialisation panicked: {}", p.lines().next().unwrap_or("")));
    }
    let (base, reserved) = verif_hooks::reserved_range();
    let (core_g, core_l) = core_specs_checked();
    let vm_g: Vec<SideMetadataSpec> = vm_side.iter().filter(|s| s.is_global).copied().collect();
    let vm_l: Vec<SideMetadataSpec> = vm_side.iter().filter(|s| !s.is_global).copied().collect();
    let decl_name = format!("VM declaration log_bit={} local side chain {:?}", if log_on_side { "side" } else { "header" }, order.iter().map(|k| KIND_NAMES[*k]).collect::<Vec<_>>());
    let mut tally = Tally { pairs: 0, adjacent: 0, contained: 0, size_agrees: 0 };
    let mut sets = 0u64;

    // (1) each chain as a whole: the core table lays its specs out "one after another" and the VM
    // declarations continue the two chains, so all specs of one chain are pairwise disjoint
    let global_chain: Vec<Table> = core_g.iter().chain(vm_g.iter()).map(|s| table(s, base)).collect();
    let local_chain: Vec<Table> = core_l.iter().chain(vm_l.iter()).map(|s| table(s, base)).collect();
    check_set(&global_chain, reserved, "partB:global_chain", &decl_name, &case, run, &mut tally);
    check_set(&local_chain, reserved, "partB:local_chain", &decl_name, &case, run, &mut tally);
    sets += 2;

    // (2) every space of every plan under this declaration: the core specs the space was observed
    // to use + the VM specs on side (the log bit only if the plan uses it; every local VM spec on
    // side is taken as used by every space)
    let lookup = |name: &str| -> SideMetadataSpec {
        match core_g.iter().chain(core_l.iter()).find(|s| s.name == name) {
            Some(s) => *s,
            None => machinery_failure(&format!("shape names unknown core spec {}", name)),
        }
    };
    let mut cross_checked = 0u64;
    for shape in shapes {
        let names = |key: &str| -> Vec<SideMetadataSpec> { shape[key].as_array().map(|a| a.iter().map(|n| lookup(n.as_str().unwrap_or(""))).collect()).unwrap_or_default() };
        let mut active: Vec<SideMetadataSpec> = names("core_global");
        if shape["uses_log_bit"].as_bool().unwrap_or(false) {
            active.extend(vm_g.iter().copied());
        }
        active.extend(names("core_local"));
        active.extend(vm_l.iter().copied());
        let active = dedup(&active);
        let tables: Vec<Table> = active.iter().map(|s| table(s, base)).collect();
        let mut case_s = case.clone();
        case_s["shape"] = shape.clone();
        let ctx = format!("plan {} space {} with {}", shape["plan"].as_str().unwrap_or("?"), shape["space"].as_str().unwrap_or("?"), decl_name);
        check_set(&tables, reserved, "partB:space", &ctx, &case_s, run, &mut tally);
        sets += 1;
        cross_checked += 1;
    }
    run.add("partB_space_sets", cross_checked);

    // (3) not a verdict: global x local overlaps of the whole table between specs that no observed
    // space uses together (see NOTES: the VM log bit table lies over the first core local tables)
    let mut latent = 0u64;
    for g in &global_chain {
        for l in &local_chain {
            if g.start < l.end && l.start < g.end {
                latent += 1;
            }
        }
    }
    run.add("whole_table_global_x_local_overlaps_counted_not_judged", latent);

    finish_tally(run, &tally, sets);
    run.add("partB_declarations", 1);
    if log_on_side && (order == [3, 4, 5] || order == [5, 2, 4, 3]) {
        run.sample(json!({"part": "B", "build": build_tag(), "log_bit_on_side": log_on_side, "local_side_order": order.iter().map(|k| KIND_NAMES[*k]).collect::<Vec<_>>(), "reserved_bytes": format!("{:#x}", reserved),
            "vm_tables": global_chain.iter().chain(local_chain.iter()).filter(|t| t.spec.name.starts_with("VM")).map(table_json).collect::<Vec<_>>(),
            "last_core_global": table_json(&global_chain[core_g.len() - 1]), "first_core_local": table_json(&local_chain[0]), "last_core_local": table_json(&local_chain[core_l.len() - 1]), "space_sets": shapes.len()}));
    }
}

/// All ordered selections (subsets in every order) of `items`.
fn ordered_selections(items: &[usize]) -> Vec<Vec<usize>> {
    fn rec(items: &[usize], cur: &mut Vec<usize>, out: &mut Vec<Vec<usize>>) {
        out.push(cur.clone());
        for &i in items {
            if !cur.contains(&i) {
                cur.push(i);
                rec(items, cur, out);
                cur.pop();
            }
        }
    }
    let mut out = vec![];
    rec(items, &mut vec![], &mut out);
    out
}

// ---------------------------------------------------------------------------------------------

fn order_arg(order: &[usize]) -> String {
    if order.is_empty() {
        "-".to_string()
    } else {
        order.iter().map(|k| k.to_string()).collect::<Vec<_>>().join(",")
    }
}

fn parse_order(s: &str) -> Vec<usize> {
    if s == "-" {
        vec![]
    } else {
        s.split(',').map(|x| x.parse::<usize>().unwrap_or_else(|_| machinery_failure("bad order"))).collect()
    }
}

fn shapes_path() -> std::path::PathBuf {
    crate::common::root().join("out").join("C24").join("shapes.json")
}

pub fn child(args: &[String]) -> ! {
    let mut run = Run::new("C24", Tier::Quick);
    let mut shapes = vec![];
    match args.first().map(|s| s.as_str()) {
        Some("plan") => shapes = check_plan(&args[1], &mut run),
        Some("decl") => {
            let text = std::fs::read_to_string(&args[3]).unwrap_or_else(|_| machinery_failure("cannot read shapes file"));
            let v: Value = serde_json::from_str(&text).unwrap_or_else(|_| machinery_failure("shapes file does not parse"));
            check_declaration(args[1] == "1", &parse_order(&args[2]), v.as_array().map(|a| a.as_slice()).unwrap_or(&[]), &mut run)
        }
        _ => machinery_failure("bad child arguments"),
    }
    let mut out = run.to_child_json();
    out["shapes"] = Value::Array(shapes);
    emit_child_result(&out)
}

fn absorb(run: &mut Run, results: &[Value]) {
    for r in results {
        if r.get("child_died").is_some() {
            machinery_failure(&format!("child {} died: {} :: {} :: {}", r["args"], r["status"], r["stdout_tail"].as_str().unwrap_or(""), r["stderr_tail"].as_str().unwrap_or("")));
        }
        run.absorb_child_json(r);
    }
}

/// Part A for all plans (one process each); returns the observed space shapes.
fn run_part_a(run: &mut Run) -> Vec<Value> {
    let args_list: Vec<Vec<String>> = PLANS.iter().map(|p| vec!["--child".into(), "C24".into(), "plan".into(), p.to_string()]).collect();
    let results = run_children(args_list, run.jobs, 120);
    absorb(run, &results);
    results.iter().flat_map(|r| r["shapes"].as_array().cloned().unwrap_or_default()).collect()
}

pub fn run(run: &mut Run) {
    let shapes = run_part_a(run);
    let path = shapes_path();
    let _ = std::fs::create_dir_all(path.parent().unwrap());
    if std::fs::write(&path, serde_json::to_string(&shapes).unwrap()).is_err() {
        machinery_failure("cannot write shapes file");
    }
    // The forwarding pointer stays in the header in every declaration: its spec type documents
    // "This metadata has to be stored in the header" (on side it would be a 2^47-byte table, for
    // which no range can be reserved at all).
    let local_kinds: Vec<usize> = kinds_in_build().into_iter().filter(|k| *k != LOG && *k != FWD_PTR).collect();
    let orders = ordered_selections(&local_kinds);
    let mut args_list: Vec<Vec<String>> = vec![];
    for log_on_side in [false, true] {
        for o in &orders {
            args_list.push(vec!["--child".into(), "C24".into(), "decl".into(), if log_on_side { "1".into() } else { "0".into() }, order_arg(o), path.display().to_string()]);
        }
    }
    let expected_decls = 2 * orders.len() as u64;
    let results = run_children(args_list, run.jobs, 120);
    absorb(run, &results);
    let complete = run.get("partA_plans") == PLANS.len() as u64 && run.get("partB_declarations") == expected_decls && run.get("partB_space_sets") == expected_decls * shapes.len() as u64;
    run.set("exhaustive", complete);
    run.set("max_depth", 1);
    run.set("build", build_json());
    run.set("partB_local_kinds", local_kinds.iter().map(|k| KIND_NAMES[*k]).collect::<Vec<_>>());
    run.set(
        "rule",
        "this build (see `build`): part A = all 11 plans, each created for real in its own process; per space (its global + local specs) and per plan (union over its spaces) all pairs of tables; part B = log bit {header, side} x every ordered selection of the local VM spec kinds {forwarding bits, mark bit, LOS mark/nursery, pinning bit} put on side (2 x sum_k C(n,k) k! declarations, n = 4 with pinning; the forwarding pointer is in the header throughout, as its spec type documents it must be), specs built by the real side_first/side_after, layout initialised by the real code in a process of its own; per declaration: all pairs of the whole global chain (core table + VM global), all pairs of the whole local chain (core table + VM locals), and for every space observed in part A all pairs of (core specs of that space + VM log bit if the plan uses it + all VM local specs on side). A table's range = extent of the real address translation over data addresses [0, 2^47). states = evaluations = sets checked; transitions = pairs of tables compared; distinct_nontrivial = (set, pair) cases where the two tables are laid out back to back (gap < 8 bytes), i.e. where an error in a size or a predecessor makes them alias",
    );
    run.assume("a table's range is taken over the whole architectural address space [0, 2^47) (mmtk's own definition of a contiguous spec's range), not over the heap range of one layout");
    run.assume("the forwarding pointer is declared in the header in every VM declaration (documented requirement of VMLocalForwardingPointerSpec)");
    run.assume("in part B every local VM spec on side counts as used by every space, and a plan uses the VM log bit iff its contexts contain it in this build (the compiled binding has the log bit on side)");
    run.assume("global x local overlaps between tables that no space uses together are counted (whole_table_global_x_local_overlaps_counted_not_judged), not judged: the property speaks of the specs one configuration reads or writes");
    run.assume("feature sets and compiled placements other than this build's are covered by running the check in those builds (part A and the space sets of part B depend on the build)");
}

pub fn replay(case: &Value, run: &mut Run) {
    match case["part"].as_str() {
        Some("A") => {
            check_plan(case["plan"].as_str().unwrap_or(""), run);
        }
        Some("B") => {
            let order: Vec<usize> = case["local_side_order"].as_array().map(|a| a.iter().map(|x| x.as_u64().unwrap_or(0) as usize).collect()).unwrap_or_default();
            let shapes: Vec<Value> = case.get("shape").filter(|s| s.is_object()).map(|s| vec![s.clone()]).unwrap_or_default();
            check_declaration(case["log_bit_on_side"].as_bool().unwrap_or(false), &order, &shapes, run)
        }
        _ => machinery_failure("bad replay case"),
    }
}
