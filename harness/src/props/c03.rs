//! C03 — a successful `alloc(size, align, offset, semantics)` returns a non-zero address A with
//! `(A + offset) % align == 0`, `[A, A+size)` zero and inside MMTk-managed memory of the space
//! the plan maps the semantics to; the call terminates for every legal argument combination.
//!
//! Engine `shadowvm`, but an *input grid* instead of programs: one child process per
//! (plan, heap pre-state); the child boots the real plan through the `VerifVM` binding and calls
//! `memory_manager::alloc` (through `World::alloc_raw`) for every tuple of the grid
//! semantics x (align, offset) x size, checking each result.  See `RULE`.
//!
//! Legality (the driver never violates a documented precondition):
//!  * `size >= MIN_OBJECT_SIZE (8)`, multiple of `MIN_ALIGNMENT (8)`; `align` a power of two in
//!    `[MIN_ALIGNMENT, MAX_ALIGNMENT] = [8, 64]`; `offset` a multiple of `MIN_ALIGNMENT`
//!    (`assert_allocation_args`, `align_allocation_inner`; `USE_ALLOCATION_OFFSET` is true; there
//!    is no `offset < align` requirement, so `offset == align` is offered too);
//!  * `Default` only up to the plan's `max_non_los_default_alloc_bytes` (above it the binding must
//!    use `Los`), `NonMoving` only up to the limit asserted at the head of its allocator
//!    (`MAX_IMMIX_OBJECT_SIZE` for the Immix-based non-moving space of this build);
//!  * semantics whose allocator selector is `None` are skipped.
//!
//! What happens to the memory after the check: allocations of semantics that a collection can
//! reclaim (Default, Los, NonMoving) are dirtied (every byte except the GC header word), turned
//! into a well-formed unreachable `VerifVM` object (descriptor + id words) and published with
//! `post_alloc` when they can carry the 24-byte object header (sizes 8 and 16 cannot: they stay
//! unpublished, i.e. are not objects for MMTk), so that the forced collections the driver runs
//! every 96 MiB reclaim them and later calls get *reused, dirty* memory.  Allocations in
//! never-reclaimed spaces (Immortal, Code, ReadOnly, LargeCode; everything under NoGC) are never
//! published; their physical pages are handed back to the OS with `MADV_DONTNEED` once the
//! allocator has moved past them (the address range stays reserved and accounted by MMTk), which
//! is what keeps the full grid within a few hundred MiB of RAM.

use crate::common::{catch, emit_child_result, machinery_failure, run_children, Run, Tier};
use crate::shadow_check::panic_slug;
use crate::shadowvm::{install_crash_handlers, set_current_case, worker_panic_to_crash, BootCfg, Fail, Sem, World, ALL_PLANS};
use crate::vm::*;
use mmtk::util::alloc::AllocatorSelector;
use mmtk::util::Address;
use serde_json::{json, Value};
use std::sync::atomic::{AtomicU64, Ordering};

const RULE: &str = "per plan (11 plans, incl. NoGC) and heap pre-state (fresh boot | after 100 mixed live allocations: lists of Default/Los nodes with Immortal/NonMoving/ReadOnly/Code/LargeCode leaves | after dropping half of them and a forced full collection; NoGC: first two) one process calling memory_manager::alloc for every tuple semantics (all mapped ones) x (align, offset) in {8,16,32,64} x {0,8,..,align} (19 pairs) (semantics served from never-reclaimed spaces - Immortal, Code, ReadOnly, LargeCode; under NoGC all but Default - on the fresh heap only, in a process of their own: bump allocation into a space no collection touches does not depend on the heap pre-state) x size, sizes = every multiple of 8 in [8, 72 KiB] plus, for Default (plans without a non-LOS limit), Los and Immortal, every multiple of 8 within +-64 B of 1,2,4,8,16 MiB (quick: one size of every 8 consecutive ones up to 8 KiB and of every 64 above, with rotating residue, all sizes within +-64 B of the boundaries 256 B, 4 KiB, 8 KiB, 16 KiB, 32 KiB, 64 KiB, 72 KiB, the plan's max_non_los_default_alloc_bytes / max_non_los_copy_bytes / non-moving limit, and 5 sizes at MiB boundaries; above 4 KiB each size takes one of the 19 (align, offset) pairs in rotation); Default only up to max_non_los_default_alloc_bytes, NonMoving up to its allocator's limit; a forced full collection every 96 MiB (PageProtect: 24 MiB) of reclaimable garbage so that later calls reuse dirtied memory. Oracle per call: returns (watchdog on CPU time without progress), non-null, (A+offset)%align==0, first/last byte mapped, SFT entry of first byte / last byte / every chunk boundary inside == the space behind get_allocator_mapping(semantics) of the mutator, that space is the one the reference table names for (plan, semantics) and contains first and last byte, every word of [A,A+size) zero. distinct_nontrivial = calls with align > 8 whose result needed a non-trivial placement (a padding gap after the previous allocation of that semantics, or offset % align != 0)";

pub fn owns(sig: &str) -> bool {
    ["alloc:misaligned", "alloc:not_zeroed", "alloc:null", "alloc:wrong_space", "alloc:unmapped", "alloc:panic", "alloc:hang"].iter().any(|p| sig.starts_with(p))
}

fn own_all() -> bool {
    std::env::var("VERIF_OWN_ALL").is_ok()
}

const KIB: usize = 1024;
const MIB: usize = 1024 * 1024;
const TOP: usize = 72 * KIB;
const GC_EVERY: usize = 96 * MIB;
const PAGE: usize = 4096;

/// Reclaimable garbage after which the driver forces a collection (PageProtect protects and
/// unprotects every object's pages with a system call each: shorter collections).
fn gc_every(plan: &str) -> usize {
    if plan == "PageProtect" {
        GC_EVERY / 4
    } else {
        GC_EVERY
    }
}

/// (align, offset) pairs: offset every multiple of 8 in [0, align].
fn combos() -> Vec<(usize, usize)> {
    let mut v = vec![];
    for align in [8usize, 16, 32, 64] {
        for offset in (0..=align).step_by(8) {
            v.push((align, offset));
        }
    }
    v
}

#[derive(Clone, Debug)]
struct Limits {
    max_non_los: usize,
    max_copy: usize,
    nonmoving_max: usize,
}

fn small_boundaries(l: &Limits) -> Vec<usize> {
    let mut b = vec![256, 4 * KIB, 8 * KIB, 16 * KIB, 32 * KIB, 64 * KIB, TOP];
    for x in [l.max_non_los, l.max_copy, l.nonmoving_max] {
        if x <= TOP {
            b.push(x);
        }
    }
    b.sort();
    b.dedup();
    b
}

/// Sizes of the grid in [8, 72 KiB], ascending.
fn small_sizes(tier: Tier, l: &Limits) -> Vec<usize> {
    if tier == Tier::Thorough {
        return (1..=TOP / 8).map(|k| 8 * k).collect();
    }
    // one size of every 8 consecutive ones up to 8 KiB, of every 64 above (rotating residue mod 64)
    let mut v: Vec<usize> = vec![8, 16, 24, 32];
    for k in 0..8 * KIB / 64 {
        v.push(8 * (8 * k + (k % 8) + 1));
    }
    for k in 8 * KIB / 512..TOP / 512 {
        v.push(8 * (64 * k + (k % 8) + 1));
    }
    for b in small_boundaries(l) {
        for d in (0..=128).step_by(8) {
            let s = (b + d).saturating_sub(64);
            if (8..=TOP).contains(&s) {
                v.push(s);
            }
        }
    }
    v.sort();
    v.dedup();
    v
}

fn big_sizes(tier: Tier) -> Vec<usize> {
    let mut v = vec![];
    for b in [MIB, 2 * MIB, 4 * MIB, 8 * MIB, 16 * MIB] {
        if tier == Tier::Thorough {
            for d in (0..=128).step_by(8) {
                v.push(b + d - 64);
            }
        }
    }
    if tier == Tier::Quick {
        v = vec![MIB - 8, MIB, MIB + 8, 4 * MIB, 16 * MIB + 8];
    }
    v
}

/// Reference table: the space(s) each plan serves a semantics from (names as the plans create
/// them).  Independent of `get_allocator_mapping` / the mutator's space mapping.
fn table_spaces(plan: &str, sem: Sem) -> Vec<&'static str> {
    if plan == "NoGC" {
        // built without nogc_multi_space: one space serves everything
        return vec!["nogc_space"];
    }
    match sem {
        Sem::Immortal => vec!["immortal"],
        Sem::Los => vec!["los"],
        Sem::NonMoving => vec!["nonmoving"],
        Sem::Code => vec!["code_space"],
        Sem::LargeCode => vec!["code_lo_space"],
        Sem::ReadOnly => vec!["ro_space"],
        Sem::Default => match plan {
            "SemiSpace" => vec!["copyspace0", "copyspace1"],
            "GenCopy" | "GenImmix" => vec!["nursery"],
            "MarkSweep" => vec!["ms"],
            "PageProtect" => vec!["pageprotect"],
            "Immix" | "StickyImmix" | "ConcurrentImmix" => vec!["immix"],
            "MarkCompact" => vec!["mc"],
            "Compressor" => vec!["compressor_space"],
            _ => vec![],
        },
    }
}

/// Spaces no collection ever reclaims: their allocations are not published as objects.
fn never_reclaimed(plan: &str, sem: Sem) -> bool {
    plan == "NoGC" || matches!(sem, Sem::Immortal | Sem::Code | Sem::ReadOnly | Sem::LargeCode)
}

/// Plans in which a *live* object with NonMoving semantics is a recorded defect of another
/// property (see known_findings.json): the mixed pre-state uses Immortal leaves instead.
fn live_nonmoving_ok(plan: &str) -> bool {
    matches!(plan, "SemiSpace" | "MarkSweep" | "Immix" | "PageProtect" | "Compressor" | "NoGC")
}

fn no_gc_after_nonmoving(plan: &str) -> bool {
    plan == "MarkCompact"
}

/// Debugging aid: `VERIF_PLANS=Immix,SemiSpace` restricts a run to some plans.
pub fn selected_plans() -> Vec<&'static str> {
    match std::env::var("VERIF_PLANS") {
        Ok(v) => ALL_PLANS.iter().copied().filter(|p| v.split(',').any(|x| x == *p)).collect(),
        Err(_) => ALL_PLANS.to_vec(),
    }
}

fn heap_bytes(plan: &str, tier: Tier) -> usize {
    // the heap budget must hold everything that is never reclaimed (virtual; see module doc)
    match (plan, tier) {
        ("NoGC", Tier::Quick) => 64 << 30,
        ("NoGC", Tier::Thorough) => 256 << 30,
        (_, Tier::Quick) => 64 << 30,
        (_, Tier::Thorough) => 256 << 30,
    }
}

fn prestates(plan: &str) -> Vec<usize> {
    if plan == "NoGC" {
        vec![0, 1, 3]
    } else {
        vec![0, 1, 2, 3]
    }
}

/// Job 3 is the fresh heap again, in a process of its own, for the semantics served from
/// never-reclaimed spaces (the longest part of the grid: split off to halve the wall time).
const PRE_NAMES: [&str; 4] = ["fresh", "after_100_mixed_live_allocations", "after_gc_freed_half", "fresh/never_reclaimed_semantics"];

/// Crash class "bump_block_ignores_alignment_padding": the bump allocator sizes the block it
/// acquires for a request from `size` alone; a fresh block is page aligned, so the request needs
/// `(-offset) mod align` bytes of padding in front, and when padding + size exceeds the block the
/// allocation is retried on a new block of the same size, for ever.
fn bump_pad_overflow(size: usize, align: usize, offset: usize) -> bool {
    let pad = (align - offset % align) % align;
    pad + size > ((size + 32767) & !32767)
}

const SKIP_BUMP_PAD: u64 = 1;
const BUMP_PAD_TEXT: &str = "the bump allocator acquires a block of round_up(size, 32 KiB) bytes for the request; the alignment padding a fresh (page-aligned) block needs, (-offset) mod align, does not fit behind size, the allocation is retried on a new block of the same size, and so on without end (unbounded recursion alloc -> alloc_slow -> acquire_block -> alloc, one leaked block per level, until the stack or the heap is exhausted)";

// ---------------------------------------------------------------------------------------------
// watchdog: a call that does not return is reported with the case that was running

static PROGRESS: AtomicU64 = AtomicU64::new(0);
static WATCHDOG_LIMIT_MS: AtomicU64 = AtomicU64::new(60_000);
/// Set while the harness thread is inside the call under test (the limit applies there; building
/// pre-states, booting and verifying get 20x the limit, like collections).
static WATCHDOG_STRICT: std::sync::atomic::AtomicBool = std::sync::atomic::AtomicBool::new(false);

/// block_for_gc upcalls one call may make before it is reported as never giving up (the event log
/// must have been emptied right before the call: `take_events()`).
pub const MAX_BLOCKS_PER_CALL: usize = 32;

pub fn watchdog_strict(on: bool) {
    WATCHDOG_STRICT.store(on, Ordering::SeqCst);
    tick();
}

fn process_cpu_ms() -> u64 {
    let mut ts = libc::timespec { tv_sec: 0, tv_nsec: 0 };
    unsafe { libc::clock_gettime(libc::CLOCK_PROCESS_CPUTIME_ID, &mut ts) };
    ts.tv_sec as u64 * 1000 + ts.tv_nsec as u64 / 1_000_000
}

/// A call is reported as not returning when the harness thread made no progress while
/// (a) the process burned `WATCHDOG_LIMIT_MS` of CPU time (20x that while a collection is pending
/// or running) - a busy loop; CPU time, not wall time, so that a starved machine cannot produce a
/// false alarm - or (b) it sat in `block_for_gc` for 5 s with no collection requested or running
/// (nothing will ever wake it), or (c) 15 minutes of wall time passed.
pub fn start_watchdog() {
    std::thread::Builder::new()
        .name("c03-watchdog".into())
        .spawn(|| {
            let mut last = PROGRESS.load(Ordering::SeqCst);
            let mut since = std::time::Instant::now();
            let mut cpu_seen = process_cpu_ms();
            let (mut cpu_nogc, mut cpu_gc, mut gc_before) = (0u64, 0u64, false);
            let mut dead_block_since: Option<std::time::Instant> = None;
            loop {
                std::thread::sleep(std::time::Duration::from_millis(100));
                let now = PROGRESS.load(Ordering::SeqCst);
                if now != last {
                    last = now;
                    since = std::time::Instant::now();
                    cpu_seen = process_cpu_ms();
                    cpu_nogc = 0;
                    cpu_gc = 0;
                    dead_block_since = None;
                    continue;
                }
                let gc_active = STATE.lock().map(|g| g.as_ref().map(|s| s.gc_active).unwrap_or(false)).unwrap_or(false);
                let gc_pending = MMTK_INSTANCE.get().map(|m| mmtk::util::verif::c03::gc_requested(m)).unwrap_or(false);
                let blocked = BLOCKED.load(Ordering::SeqCst);
                let gc = gc_active || gc_pending;
                // blocked for a collection that nobody requested and that has not already finished
                let gc_finished = STATE.lock().map(|g| g.as_ref().map(|s| s.gc_count).unwrap_or(0)).unwrap_or(0) > REQUEST_BASE.load(Ordering::SeqCst);
                if blocked && !gc && !gc_finished {
                    if dead_block_since.is_none() {
                        dead_block_since = Some(std::time::Instant::now());
                    }
                } else {
                    dead_block_since = None;
                }
                // CPU time burned while no collection was pending or running counts against the
                // limit, CPU time of collections against 20x the limit
                let now_cpu = process_cpu_ms();
                let delta = now_cpu.saturating_sub(cpu_seen);
                cpu_seen = now_cpu;
                if gc || gc_before || !WATCHDOG_STRICT.load(Ordering::SeqCst) {
                    cpu_gc += delta;
                } else {
                    cpu_nogc += delta;
                }
                gc_before = gc;
                let cpu = cpu_nogc + cpu_gc;
                let limit = WATCHDOG_LIMIT_MS.load(Ordering::SeqCst);
                let dead_block = dead_block_since.map(|t| t.elapsed().as_secs() >= 5).unwrap_or(false);
                // (d) one call under test that has blocked for a collection more than
                // MAX_BLOCKS_PER_CALL times: after the emergency collection has failed the slow path
                // must give up, so an honest request blocks a handful of times
                let blocks = if WATCHDOG_STRICT.load(Ordering::SeqCst) {
                    STATE.lock().map(|g| g.as_ref().map(|s| s.events.iter().filter(|e| matches!(e, VmEvent::BlockForGcEnter(_))).count()).unwrap_or(0)).unwrap_or(0)
                } else {
                    0
                };
                if blocks > MAX_BLOCKS_PER_CALL {
                    worker_panic_to_crash(&format!("HANG endless_collections: the call has blocked for a collection {} times and has not returned ({} ms wall)", blocks, since.elapsed().as_millis()));
                }
                if cpu_nogc > limit || cpu_gc > 20 * limit || dead_block || since.elapsed().as_secs() > 900 {
                    worker_panic_to_crash(&format!("HANG no progress for {} ms wall / {} ms CPU (inside block_for_gc: {}, collection pending or running: {})", since.elapsed().as_millis(), cpu, blocked, gc));
                }
            }
        })
        .unwrap();
}

pub fn set_watchdog_limit_ms(ms: u64) {
    WATCHDOG_LIMIT_MS.store(ms, Ordering::SeqCst);
}

pub fn tick() {
    PROGRESS.fetch_add(1, Ordering::SeqCst);
}

// ---------------------------------------------------------------------------------------------
// child

struct Dead {
    lo: usize,
    hi: usize,
}

struct Ctx {
    w: World,
    plan: String,
    tier: Tier,
    pre: usize,
    limits: Limits,
    selectors: Vec<(Sem, AllocatorSelector)>,
    garbage: usize,
    prev_end: [usize; 7],
    dead: Dead,
    // statistics
    calls: u64,
    bytes: u64,
    nontrivial: u64,
    padded: u64,
    offset_shifted: u64,
    published: u64,
    released_bytes: u64,
    forced_gcs: u64,
    known_f4: u64,
    residues: u64,
    chunk_crossing: u64,
    per_sem: [u64; 7],
    prof_alloc_ns: [u64; 7],
    prof_check_ns: [u64; 7],
    prof: bool,
    first_ordinal: u64,
    skip_mask: u64,
    /// violations found by this process so far (they travel in the crash report if the process dies)
    found: Vec<Value>,
    reused: u64,
    seen_hi: [usize; 7],
}

fn sem_index(s: Sem) -> usize {
    Sem::ALL.iter().position(|x| *x == s).unwrap()
}

fn mutator0() -> &'static mut mmtk::Mutator<VerifVM> {
    with_state(|s| {
        let r = s.mutators.iter().find(|x| x.tls == MUTATOR_TLS_BASE).expect("mutator 0 not bound");
        unsafe { &mut *r.mutator }
    })
}

enum Outcome {
    Ok,
    /// a violation of this property; `stop` = the instance is no longer trustworthy
    Violation { sig: String, msg: String, stop: bool },
    Foreign { sig: String, msg: String },
}

impl Ctx {
    fn selector(&self, sem: Sem) -> Option<AllocatorSelector> {
        self.selectors.iter().find(|(s, _)| *s == sem).map(|(_, x)| *x)
    }

    /// Hand the physical pages of dead, never-published memory below the allocator back to the OS.
    fn release_dead(&mut self, force: bool) {
        let d = &mut self.dead;
        if d.hi - d.lo >= 8 * MIB || (force && d.hi > d.lo) {
            let lo = (d.lo + PAGE - 1) & !(PAGE - 1);
            let hi = d.hi & !(PAGE - 1);
            if hi > lo {
                unsafe { libc::madvise(lo as *mut libc::c_void, hi - lo, libc::MADV_DONTNEED) };
                self.released_bytes += (hi - lo) as u64;
            }
            d.lo = hi.max(d.lo);
            if force {
                d.lo = 0;
                d.hi = 0;
            }
        }
    }

    fn note_dead(&mut self, a: usize, size: usize) {
        if a >= self.dead.hi && a - self.dead.hi < 64 * KIB && self.dead.hi != 0 {
            self.dead.hi = a + size;
        } else {
            self.release_dead(true);
            self.dead.lo = a;
            self.dead.hi = a + size;
        }
        self.release_dead(false);
    }

    fn case(&self, ordinal: u64, sem: Sem, size: usize, align: usize, offset: usize, phase: &str) -> Value {
        json!({"plan": self.plan, "tier": self.tier.name(), "pre": self.pre, "ordinal": ordinal, "sem": sem.name(), "size": size, "align": align, "offset": offset, "phase": phase, "process_first_ordinal": self.first_ordinal, "skip_mask": self.skip_mask,
            "so_far": {"calls": self.calls, "nontrivial": self.nontrivial, "bytes": self.bytes, "known_f4": self.known_f4, "collections": self.forced_gcs, "violations": self.found}})
    }

    fn forced_gc(&mut self, ordinal: u64) -> Outcome {
        set_current_case(&json!({"plan": self.plan, "pre": self.pre, "ordinal": ordinal, "phase": "gc", "so_far": {"calls": self.calls, "nontrivial": self.nontrivial, "bytes": self.bytes, "known_f4": self.known_f4, "collections": self.forced_gcs, "violations": self.found}}));
        self.garbage = 0;
        self.forced_gcs += 1;
        match catch(|| self.w.gc(0, true)) {
            Ok(Ok(())) => Outcome::Ok,
            Ok(Err((sig, msg))) => Outcome::Foreign { sig, msg },
            Err(pm) => Outcome::Foreign { sig: format!("panic{}", panic_slug(&format!("{}:0: {}", crate::common::last_panic_location(), pm))), msg: format!("panic in a forced collection: {}", pm) },
        }
    }

    fn one_call(&mut self, ordinal: u64, sem: Sem, size: usize, align: usize, offset: usize) -> Outcome {
        let plan = self.plan.clone();
        let desc = format!("plan {} pre-state {} alloc(size={}, align={}, offset={}, {})", plan, PRE_NAMES[self.pre], size, align, offset, sem.name());
        set_current_case(&self.case(ordinal, sem, size, align, offset, "call"));
        tick();
        let ooms_before = OOM_COUNT.load(Ordering::SeqCst);
        let t0 = if self.prof { Some(std::time::Instant::now()) } else { None };
        let _ = take_events();
        watchdog_strict(true);
        let r = catch(|| self.w.alloc_raw(0, size, align, offset, sem, None));
        watchdog_strict(false);
        if let Some(t) = t0 {
            self.prof_alloc_ns[sem_index(sem)] += t.elapsed().as_nanos() as u64;
        }
        let t1 = if self.prof { Some(std::time::Instant::now()) } else { None };
        self.calls += 1;
        self.per_sem[sem_index(sem)] += 1;
        let a = match r {
            Err(pm) => {
                let loc = crate::common::last_panic_location();
                if plan == "MarkSweep" && sem == Sem::Default && size <= 65536 && size + align - 8 > 65536 {
                    self.known_f4 += 1;
                    return Outcome::Violation { sig: "alloc:panic:marksweep_padded_above_top_class".into(), msg: format!("{} panicked at {}: {}", desc, loc, pm.lines().next().unwrap_or("")), stop: false };
                }
                return Outcome::Violation { sig: format!("alloc:panic{}", panic_slug(&format!("{}:0: {}", loc, pm))), msg: format!("{} panicked at {}: {}", desc, loc, pm.lines().next().unwrap_or("")), stop: true };
            }
            Ok(Err((sig, msg))) => {
                return if owns(&sig) || own_all() { Outcome::Violation { sig, msg: format!("{}: {}", desc, msg), stop: false } } else { Outcome::Foreign { sig, msg } };
            }
            Ok(Ok(a)) => a,
        };
        if a.is_zero() {
            let ooms = OOM_COUNT.load(Ordering::SeqCst) - ooms_before;
            return Outcome::Violation { sig: "alloc:null".into(), msg: format!("{} returned null ({} out_of_memory upcalls; used {} of {} heap bytes)", desc, ooms, mmtk::memory_manager::used_bytes(self.w.mmtk), mmtk::memory_manager::total_bytes(self.w.mmtk)), stop: true };
        }
        let au = a.as_usize();
        if (au + offset) % align != 0 || au % 8 != 0 {
            return Outcome::Violation { sig: "alloc:misaligned".into(), msg: format!("{} returned {}", desc, a), stop: false };
        }
        let last = a + (size - 1);
        // inside MMTk-managed memory ...
        for p in [a, last] {
            if !mmtk::memory_manager::is_mapped_address(p) {
                return Outcome::Violation { sig: "alloc:unmapped".into(), msg: format!("{} returned {}: byte {} of the range is not in memory MMTk has mapped", desc, a, p), stop: false };
            }
        }
        // ... of the space the plan maps the semantics to
        let sel = self.selector(sem).unwrap();
        let mu = mutator0();
        let want = unsafe { mmtk::util::verif::c03::allocator_space_name(mu, sel) };
        let table = table_spaces(&plan, sem);
        if !table.contains(&want) {
            return Outcome::Violation { sig: "alloc:wrong_space:mapping".into(), msg: format!("{}: the mutator's allocator {:?} for this semantics allocates into space '{}', the plan serves it from {:?}", desc, sel, want, table), stop: false };
        }
        let mut probes = vec![a, last];
        let mut c = (au | (4 * MIB - 1)) + 1;
        while c < au + size {
            probes.push(unsafe { Address::from_usize(c) });
            probes.push(unsafe { Address::from_usize(c - 1) });
            c += 4 * MIB;
        }
        if probes.len() > 2 {
            self.chunk_crossing += 1;
        }
        for p in probes {
            let got = mmtk::util::verif::c03::sft_name(p);
            if got != want {
                return Outcome::Violation { sig: "alloc:wrong_space".into(), msg: format!("{} returned {}: byte {} belongs to space '{}' (SFT), expected '{}' (allocator {:?})", desc, a, p, got, want, sel), stop: false };
            }
            if !unsafe { mmtk::util::verif::c03::allocator_space_contains(mu, sel, p) } {
                return Outcome::Violation { sig: "alloc:wrong_space:range".into(), msg: format!("{} returned {}: byte {} is outside the address range of space '{}'", desc, a, p, want), stop: false };
            }
        }
        // zeroed: every word
        set_current_case(&self.case(ordinal, sem, size, align, offset, "read"));
        let words = size / 8;
        let base = a.to_ptr::<usize>();
        let mut k = 0;
        while k < words {
            let v = unsafe { std::ptr::read_volatile(base.add(k)) };
            if v != 0 {
                return Outcome::Violation { sig: "alloc:not_zeroed".into(), msg: format!("{} returned {} with word {:#x} at +{}", desc, a, v, 8 * k), stop: false };
            }
            k += 1;
        }
        // accounting
        self.bytes += size as u64;
        let si = sem_index(sem);
        let pe = self.prev_end[si];
        let gap = au.wrapping_sub(pe);
        let padded = pe != 0 && gap > 0 && gap < align;
        if align > 8 && (padded || offset % align != 0) {
            self.nontrivial += 1;
        }
        if padded {
            self.padded += 1;
        }
        if align > 8 && offset % align != 0 {
            self.offset_shifted += 1;
        }
        self.prev_end[si] = au + size;
        self.residues |= 1 << ((au % 64) / 8);
        if au < self.seen_hi[si] {
            self.reused += 1;
        } else {
            self.seen_hi[si] = au + size;
        }
        // what becomes of the memory
        if never_reclaimed(&plan, sem) {
            self.note_dead(au, size);
        } else {
            unsafe {
                if size >= HEADER_BYTES {
                    std::ptr::write_bytes((a + 8usize).to_mut_ptr::<u8>(), 0xd5, size - 8);
                    let id = NEXT_ID.fetch_add(1, Ordering::SeqCst);
                    write_word(a + 8usize, size | ((align.trailing_zeros() as usize) << 48));
                    write_word(a + 16usize, id as usize);
                    let o = mmtk::util::ObjectReference::from_raw_address(a).unwrap();
                    mmtk::memory_manager::post_alloc(mu, o, size, sem.to_mmtk());
                    self.published += 1;
                } else {
                    std::ptr::write_bytes(a.to_mut_ptr::<u8>(), 0xd5, size);
                }
            }
            self.garbage += size.max(if sem == Sem::Los || plan == "PageProtect" { PAGE } else { 0 });
        }
        if let Some(t) = t1 {
            self.prof_check_ns[sem_index(sem)] += t.elapsed().as_nanos() as u64;
        }
        Outcome::Ok
    }
}

/// The 100 mixed allocations of pre-states 1 and 2: two lists (roots 0 and 1 of mutator 0) of
/// Default/Los nodes [next, leaf], every fifth allocation a leaf with another semantics.
fn build_prestate(w: &mut World, plan: &str, pre: usize) -> Result<(), Fail> {
    if pre == 0 || pre == 3 {
        return Ok(());
    }
    let node_sizes = [40usize, 264, 1024, 4096, 12000, 40 * KIB, 72, 520];
    let leaf_sems = [Sem::Immortal, Sem::NonMoving, Sem::ReadOnly, Sem::Code, Sem::LargeCode];
    let leaf_sizes = [24usize, 64, 256, 2048];
    let mut nodes = 0usize;
    let mut leaves = 0usize;
    let mut last_node: [Option<u64>; 2] = [None, None];
    for i in 0..100 {
        if i % 5 == 4 && last_node[nodes % 2].is_some() {
            let mut sem = leaf_sems[leaves % leaf_sems.len()];
            if sem == Sem::NonMoving && !live_nonmoving_ok(plan) {
                sem = Sem::Immortal;
            }
            let size = leaf_sizes[leaves % leaf_sizes.len()];
            let id = w.alloc_obj(0, 3, size, 0, 8, sem, false)?.ok_or(("alloc:null".to_string(), "pre-state allocation failed".to_string()))?;
            // attach to the most recent node of the list that gets the next node
            let holder = last_node[nodes % 2].unwrap();
            w.write_field(0, holder, 1, Some(id));
            w.set_root(0, 3, None);
            leaves += 1;
        } else {
            let list = nodes % 2;
            let size = node_sizes[nodes % node_sizes.len()];
            let sem = if nodes % 7 == 6 { Sem::Los } else { Sem::Default };
            let align = [8usize, 16, 32, 64][nodes % 4];
            let id = w.alloc_obj(0, 2, size, 2, align, sem, false)?.ok_or(("alloc:null".to_string(), "pre-state allocation failed".to_string()))?;
            let head = w.root(0, list);
            w.write_field(0, id, 0, head);
            w.set_root(0, list, Some(id));
            w.set_root(0, 2, None);
            last_node[list] = Some(id);
            nodes += 1;
        }
    }
    if pre == 2 {
        w.set_root(0, 1, None);
        w.gc(0, true)?;
    }
    Ok(())
}

fn legal_max(l: &Limits, sem: Sem) -> usize {
    match sem {
        Sem::Default => l.max_non_los,
        Sem::NonMoving => l.nonmoving_max,
        _ => usize::MAX,
    }
}

/// The grid of one child in its fixed order: (sem, align, offset, size).
fn grid(plan: &str, tier: Tier, l: &Limits, sems: &[Sem]) -> Vec<(Sem, usize, usize, usize)> {
    let small = small_sizes(tier, l);
    let big = big_sizes(tier);
    let cs = combos();
    let mut out = vec![];
    for &sem in sems {
        let max = legal_max(l, sem);
        // under NoGC all semantics share one allocator and nothing is reclaimed: the MiB-sized
        // requests are made with Default and Los only
        // (Code, ReadOnly and LargeCode are served by the same allocator and space types as Immortal)
        let with_big = max >= 17 * MIB && matches!(sem, Sem::Default | Sem::Los | Sem::Immortal) && (plan != "NoGC" || sem != Sem::Immortal);
        if tier == Tier::Thorough {
            for &(align, offset) in &cs {
                for &size in small.iter().filter(|s| **s <= max) {
                    out.push((sem, align, offset, size));
                }
                if with_big {
                    for &size in &big {
                        out.push((sem, align, offset, size));
                    }
                }
            }
        } else {
            let mut rot = 0usize;
            for &size in small.iter().filter(|s| **s <= max) {
                if size <= 4 * KIB + 64 {
                    for &(align, offset) in &cs {
                        out.push((sem, align, offset, size));
                    }
                } else {
                    let (align, offset) = cs[rot % cs.len()];
                    rot += 1;
                    out.push((sem, align, offset, size));
                }
            }
            if with_big {
                for &size in &big {
                    let (align, offset) = cs[rot % cs.len()];
                    rot += 7;
                    out.push((sem, align, offset, size));
                }
            }
        }
    }
    out
}

pub fn child(args: &[String]) {
    let plan = args[0].clone();
    let tier = if args.get(1).map(|s| s.as_str()) == Some("thorough") { Tier::Thorough } else { Tier::Quick };
    let mode = args.get(2).map(|s| s.as_str()).unwrap_or("run").to_string();
    let pre: usize = args.get(3).and_then(|s| s.parse().ok()).unwrap_or(0);
    let run_from: u64 = if mode == "run" { args.get(4).and_then(|s| s.parse().ok()).unwrap_or(0) } else { 0 };
    let mut skip_mask: u64 = if mode == "run" { args.get(5).and_then(|s| s.parse().ok()).unwrap_or(0) } else { 0 };
    install_crash_handlers();
    let _ = crate::common::WORKER_PANIC_HANDLER.set(Box::new(worker_panic_to_crash));
    set_current_case(&json!({"plan": plan, "pre": pre, "phase": "boot"}));
    start_watchdog();
    let mut cfg = BootCfg::new(&plan);
    cfg.heap_bytes = heap_bytes(&plan, tier);
    let w = World::boot(cfg.clone());
    let constraints = w.mmtk.get_plan().constraints();
    let limits = Limits { max_non_los: constraints.max_non_los_default_alloc_bytes, max_copy: constraints.max_non_los_copy_bytes, nonmoving_max: mmtk::util::verif::c03::nonmoving_max_object_size() };
    let mut selectors = vec![];
    for sem in Sem::ALL {
        let sel = mmtk::memory_manager::get_allocator_mapping(w.mmtk, sem.to_mmtk());
        if sel != AllocatorSelector::None {
            selectors.push((sem, sel));
        }
    }
    let sems: Vec<Sem> = selectors.iter().map(|(s, _)| *s).filter(|s| (pre == 3) != (!never_reclaimed(&plan, *s) || (plan == "NoGC" && *s == Sem::Default))).collect();
    let mut c = Ctx {
        w,
        plan: plan.clone(),
        tier,
        pre,
        limits: limits.clone(),
        selectors,
        garbage: 0,
        prev_end: [0; 7],
        dead: Dead { lo: 0, hi: 0 },
        calls: 0,
        bytes: 0,
        nontrivial: 0,
        padded: 0,
        offset_shifted: 0,
        published: 0,
        released_bytes: 0,
        forced_gcs: 0,
        known_f4: 0,
        residues: 0,
        chunk_crossing: 0,
        per_sem: [0; 7],
        prof_alloc_ns: [0; 7],
        prof_check_ns: [0; 7],
        prof: std::env::var("VERIF_C03_PROFILE").is_ok(),
        first_ordinal: 0,
        skip_mask: 0,
        found: vec![],
        reused: 0,
        seen_hi: [0; 7],
    };
    let mut sub = Run::new("C03", tier);
    let label = format!("{}/{}", plan, PRE_NAMES[pre]);
    let mut stopped = false;
    set_current_case(&json!({"plan": plan, "pre": pre, "phase": "prestate"}));
    match catch(|| build_prestate(&mut c.w, &plan, pre)) {
        Ok(Ok(())) => {}
        Ok(Err((sig, msg))) => {
            sub.assume(&format!("{}: building the heap pre-state failed with a failure of another property's class ({}: {})", label, sig, msg));
            stopped = true;
        }
        Err(pm) => {
            sub.assume(&format!("{}: building the heap pre-state panicked ({})", label, pm.lines().next().unwrap_or("")));
            stopped = true;
        }
    }
    // PageProtect protects / unprotects every object's pages with a system call each (a thorough
    // child takes 15 min): the full grid on the fresh heap, the quick grid on the other pre-states
    let grid_tier = if plan == "PageProtect" && (pre == 1 || pre == 2) { Tier::Quick } else { tier };
    let g = grid(&plan, grid_tier, &limits, &sems);
    let total = g.len() as u64;
    // replay: a single tuple, or the prefix of the grid up to an ordinal
    let (from, to, single): (u64, u64, Option<(Sem, usize, usize, usize)>) = if mode == "replay" {
        let case: Value = serde_json::from_str(&args[4]).unwrap_or(Value::Null);
        let ord = case["ordinal"].as_u64().unwrap_or(0);
        if args.get(5).map(|s| s.as_str()) == Some("prefix") {
            // the calls of the process that made it
            skip_mask = case["skip_mask"].as_u64().unwrap_or(0);
            (case["process_first_ordinal"].as_u64().unwrap_or(0), ord + 1, None)
        } else {
            (ord, ord + 1, Some((Sem::from_name(case["sem"].as_str().unwrap_or("Default")), case["align"].as_u64().unwrap_or(8) as usize, case["offset"].as_u64().unwrap_or(0) as usize, case["size"].as_u64().unwrap_or(8) as usize)))
        }
    } else {
        (run_from, total, None)
    };
    c.first_ordinal = from;
    c.skip_mask = skip_mask;
    let mut skipped = 0u64;
    let mut nonmoving_started = false;
    let mut ordinal = from;
    while !stopped && ordinal < to {
        let (sem, align, offset, size) = match single {
            Some(t) => t,
            None => {
                if ordinal >= total {
                    break;
                }
                g[ordinal as usize]
            }
        };
        if single.is_none() && skip_mask & SKIP_BUMP_PAD != 0 && bump_pad_overflow(size, align, offset) && matches!(c.selector(sem), Some(AllocatorSelector::BumpPointer(_))) {
            skipped += 1;
            ordinal += 1;
            continue;
        }
        // a collection after any NonMoving allocation panics under MarkCompact (recorded under
        // C01): its NonMoving tuples come last (Sem::ALL order), after a collection, and none follows
        let no_gc_now = no_gc_after_nonmoving(&plan) && sem == Sem::NonMoving;
        if no_gc_now && !nonmoving_started {
            nonmoving_started = true;
            if c.garbage > 0 {
                if let Outcome::Foreign { sig, msg } = c.forced_gc(ordinal) {
                    sub.assume(&format!("{}: exploration stopped at call #{} by a failure of another property's class ({})", label, ordinal, sig));
                    sub.set("foreign_failures", json!([format!("{}: {}", sig, msg)]));
                    stopped = true;
                    break;
                }
            }
        }
        let mut outcome = c.one_call(ordinal, sem, size, align, offset);
        if matches!(outcome, Outcome::Ok) && c.garbage >= gc_every(&plan) && !no_gc_now {
            outcome = c.forced_gc(ordinal);
        }
        match outcome {
            Outcome::Ok => {
                if ordinal % (total / 3 + 1) == 7 % (total / 3 + 1) {
                    sub.sample(json!({"plan": plan, "pre_state": PRE_NAMES[pre], "sem": sem.name(), "size": size, "align": align, "offset": offset, "result": format!("{:#x}", c.prev_end[sem_index(sem)] - size), "space": unsafe { mmtk::util::verif::c03::allocator_space_name(mutator0(), c.selector(sem).unwrap()) }}));
                }
            }
            Outcome::Violation { sig, msg, stop } => {
                let full = format!("{}:{}:{}", sig, plan, sem.name());
                if c.found.len() < 8 && !c.found.iter().any(|f| f["signature"] == full.as_str()) {
                    let mut cj = c.case(ordinal, sem, size, align, offset, "call");
                    cj.as_object_mut().unwrap().remove("so_far");
                    c.found.push(json!({"signature": full, "message": msg.chars().take(400).collect::<String>(), "case": cj}));
                }
                sub.violation(full, msg, c.case(ordinal, sem, size, align, offset, "call"));
                if stop {
                    stopped = true;
                }
            }
            Outcome::Foreign { sig, msg } => {
                sub.assume(&format!("{}: exploration stopped at call #{} by a failure of another property's class ({})", label, ordinal, sig));
                sub.set("foreign_failures", json!([format!("{}: {} (at call #{} {} size {} align {} offset {})", sig, msg, ordinal, sem.name(), size, align, offset)]));
                stopped = true;
            }
        }
        ordinal += 1;
    }
    // a closing collection: everything published above must be collectable garbage
    if !stopped && mode != "replay" && c.w.collects && !nonmoving_started {
        if let Outcome::Foreign { sig, msg } = c.forced_gc(ordinal) {
            sub.assume(&format!("{}: the closing collection failed with a failure of another property's class ({})", label, sig));
            sub.set("foreign_failures", json!([format!("{}: {}", sig, msg)]));
            stopped = true;
        }
    }
    c.release_dead(true);
    if c.prof {
        for (i, sm) in Sem::ALL.iter().enumerate() {
            if c.per_sem[i] > 0 {
                eprintln!("PROFILE {} {}: calls {} alloc {:.1} us/call checks {:.1} us/call", label, sm.name(), c.per_sem[i], c.prof_alloc_ns[i] as f64 / 1000.0 / c.per_sem[i] as f64, c.prof_check_ns[i] as f64 / 1000.0 / c.per_sem[i] as f64);
            }
        }
    }
    sub.add("states", c.calls);
    sub.add("transitions", c.calls);
    sub.add("evaluations", c.calls);
    sub.add("traces_validated_against_impl", c.calls);
    sub.add("distinct_nontrivial", c.nontrivial);
    sub.add("bytes_checked_zero", c.bytes);
    sub.add("calls_with_padding_gap", c.padded);
    sub.add("calls_with_offset_not_multiple_of_align", c.offset_shifted);
    sub.add("calls_spanning_chunk_boundaries", c.chunk_crossing);
    sub.add("calls_served_from_reused_addresses", c.reused);
    sub.add("allocations_published_as_objects", c.published);
    sub.add("bytes_returned_to_os", c.released_bytes);
    sub.add("forced_collections", c.forced_gcs);
    sub.add("collections", c.w.stats.gcs);
    sub.add("known_marksweep_padded_panics", c.known_f4);
    sub.set("max_depth", 1u64);
    sub.add("calls_skipped_after_crash_of_same_class", skipped);
    sub.set("exhaustive", !stopped && mode != "replay" && skipped == 0);
    let per_sem: serde_json::Map<String, Value> = Sem::ALL.iter().enumerate().filter(|(i, _)| c.per_sem[*i] > 0).map(|(i, s)| (s.name().to_string(), json!(c.per_sem[i]))).collect();
    sub.set(
        "per_child",
        json!({label.clone(): {"calls": c.calls, "grid": total, "per_semantics": per_sem, "residues_of_result_mod_64_seen": c.residues.count_ones(), "limits": {"max_non_los_default_alloc_bytes": limits.max_non_los, "max_non_los_copy_bytes": limits.max_copy, "nonmoving_max": limits.nonmoving_max}, "collections": c.w.stats.gcs}}),
    );
    let mut out = sub.to_child_json();
    out["stopped"] = json!(stopped);
    emit_child_result(&out);
}

fn absorb(run: &mut Run, names: &[String], results: Vec<Value>) -> Option<(u64, u64)> {
    let mut resume = None;
    for (name, r) in names.iter().zip(results) {
        if r.get("child_crashed").is_some() {
            let crash = r["crash"].as_str().unwrap_or("");
            let (sig, rest) = crash.split_once(' ').unwrap_or((crash, ""));
            let (case_s, detail) = rest.split_once(" ||| ").unwrap_or((rest, ""));
            let case: Value = serde_json::from_str(case_s).unwrap_or(json!({"child": name, "raw": case_s}));
            let phase = case["phase"].as_str().unwrap_or("");
            let sem = case["sem"].as_str().unwrap_or("");
            let plan = case["plan"].as_str().unwrap_or("");
            run.add("children_crashed", 1);
            // what the process had done before it died
            let sf = &case["so_far"];
            for k in ["states", "transitions", "evaluations", "traces_validated_against_impl"] {
                run.add(k, sf["calls"].as_u64().unwrap_or(0));
            }
            run.add("distinct_nontrivial", sf["nontrivial"].as_u64().unwrap_or(0));
            run.add("bytes_checked_zero", sf["bytes"].as_u64().unwrap_or(0));
            run.add("known_marksweep_padded_panics", sf["known_f4"].as_u64().unwrap_or(0));
            run.add("forced_collections", sf["collections"].as_u64().unwrap_or(0));
            if let Some(a) = sf["violations"].as_array() {
                for x in a {
                    run.violation(x["signature"].as_str().unwrap_or("?").to_string(), x["message"].as_str().unwrap_or("").to_string(), x["case"].clone());
                }
            }
            let mut case = case.clone();
            if let Some(o) = case.as_object_mut() {
                o.remove("so_far");
            }
            let what = format!("{}: alloc(size={}, align={}, offset={}, {})", name, case["size"], case["align"], case["offset"], sem);
            if detail.starts_with("HANG") && (phase == "call" || phase == "read") {
                let (size, align, offset) = (case["size"].as_u64().unwrap_or(0) as usize, case["align"].as_u64().unwrap_or(8) as usize, case["offset"].as_u64().unwrap_or(0) as usize);
                let ord = case["ordinal"].as_u64().unwrap_or(0);
                if bump_pad_overflow(size, align, offset) {
                    run.violation(format!("alloc:hang:bump_block_ignores_alignment_padding:{}:{}", plan, sem), format!("{} did not return ({}): {}", what, detail, BUMP_PAD_TEXT), case);
                    resume = Some((ord, SKIP_BUMP_PAD));
                } else {
                    run.violation(format!("alloc:hang:{}:{}", plan, sem), format!("{} did not return: {}", what, detail), case);
                    resume = Some((ord, 0));
                }
            } else if sig != "WORKER-PANIC" && phase == "read" {
                run.violation(format!("alloc:unmapped:fault_reading_result:{}:{}", plan, sem), format!("{}: {} while reading the returned range", what, sig), case);
            } else if sig != "WORKER-PANIC" && phase == "call" {
                let (size, align, offset) = (case["size"].as_u64().unwrap_or(0) as usize, case["align"].as_u64().unwrap_or(8) as usize, case["offset"].as_u64().unwrap_or(0) as usize);
                let ord = case["ordinal"].as_u64().unwrap_or(0);
                if sig == "SIGSEGV" && bump_pad_overflow(size, align, offset) {
                    run.violation(format!("alloc:hang:bump_block_ignores_alignment_padding:{}:{}", plan, sem), format!("{}: the process died with SIGSEGV (stack overflow) inside the call: {}", what, BUMP_PAD_TEXT), case);
                    resume = Some((ord, SKIP_BUMP_PAD));
                } else {
                    run.violation(format!("alloc:panic:signal_{}:{}:{}", sig, plan, sem), format!("{}: the process died with {} inside the call", what, sig), case);
                    resume = Some((ord, 0));
                }
            } else if own_all() {
                run.violation(format!("crash:{}:{}", sig, name), format!("{}: {} in phase {} {}", name, sig, phase, detail), case);
            } else {
                run.assume(&format!("{}: exploration stopped by a crash ({} in phase '{}') that belongs to another property's failure class: {}", name, sig, phase, detail.chars().take(200).collect::<String>()));
                run.set("exhaustive", false);
            }
            continue;
        }
        if r.get("child_died").is_some() && r["stderr_tail"].as_str().map(|t| t.contains("waited 60 s")).unwrap_or(false) {
            // the binding's wall-clock guard: a collection (not a call of this property) did not
            // finish or start within 60 s
            run.assume(&format!("{}: exploration stopped: the binding gave up waiting for a collection ({})", name, r["stderr_tail"].as_str().unwrap_or("").lines().last().unwrap_or("")));
            run.set("exhaustive", false);
            run.add("children_stopped_by_gc_wait_guard", 1);
            continue;
        }
        if r.get("child_died").is_some() {
            // (reported as a machinery failure once every job has finished: no orphans)
            run.set("machinery_failure", format!("C03 child {} died without a result: {}", name, r));
            continue;
        }
        run.absorb_child_json(&r);
    }
    resume
}

/// Run the grid of one (plan, pre-state); after a crash inside a call the grid is continued
/// behind it in a fresh process (without the tuples of a crash class that has been seen).
fn run_job(plan: &str, pre: usize, tier: Tier, timeout: u64) -> Run {
    let mut acc = Run::new("C03", tier);
    let name = vec![format!("{}/{}", plan, PRE_NAMES[pre])];
    let mut from = 0u64;
    let mut mask = 0u64;
    let mut restarts = 0;
    loop {
        let args = vec!["--child".to_string(), "C03".to_string(), plan.to_string(), tier.name().to_string(), "run".to_string(), pre.to_string(), from.to_string(), mask.to_string()];
        let r = run_children(vec![args], 1, timeout);
        match absorb(&mut acc, &name, r) {
            Some((ord, class)) if restarts < 6 => {
                acc.set("exhaustive", false);
                restarts += 1;
                mask |= class;
                from = ord + 1;
            }
            Some(_) => {
                acc.set("exhaustive", false);
                break;
            }
            None => break,
        }
    }
    acc
}

pub fn run(run: &mut Run) {
    let mut jobs: Vec<(String, usize)> = vec![];
    // the slowest children first
    for pre in [3usize, 2, 1, 0] {
        for p in selected_plans() {
            if prestates(p).contains(&pre) {
                jobs.push((p.to_string(), pre));
            }
        }
    }
    let tier = run.tier;
    let timeout = tier.pick(900, 6000);
    let next = std::sync::atomic::AtomicUsize::new(0);
    let results: std::sync::Mutex<Vec<Option<Run>>> = std::sync::Mutex::new((0..jobs.len()).map(|_| None).collect());
    std::thread::scope(|s| {
        for _ in 0..run.jobs.max(1).min(jobs.len()) {
            s.spawn(|| loop {
                let i = next.fetch_add(1, Ordering::SeqCst);
                if i >= jobs.len() {
                    break;
                }
                let r = run_job(&jobs[i].0, jobs[i].1, tier, timeout);
                results.lock().unwrap()[i] = Some(r);
            });
        }
    });
    for r in results.into_inner().unwrap() {
        let r = r.unwrap();
        if let Some(m) = r.coverage.get("machinery_failure").and_then(|v| v.as_str()) {
            machinery_failure(m);
        }
        run.absorb_child_json(&r.to_child_json());
    }
    run.set("rule", RULE);
    run.set("plans", json!(selected_plans()));
    run.set("placement", PLACEMENT);
    run.set("features", json!(crate::shadowvm::feature_set()));
    run.assume("allocations are made by one mutator; the second and later calls of a process start from the allocator/heap state the earlier calls of the grid left (documented order), so a violation is replayed first alone in a fresh process and, if it does not show there, with the grid prefix that preceded it");
    run.assume("PageProtect (a system call per object and collection): thorough runs the full grid on the fresh heap and the quick grid on the other two pre-states");
    run.assume("MarkCompact: the NonMoving tuples are run last, after a forced collection, and no collection follows them (any collection after a NonMoving allocation panics in the non-moving space's SweepChunk: recorded under C01)");
    run.assume("NonMoving is offered up to MAX_IMMIX_OBJECT_SIZE (the non-moving space of this build is Immix-based; its allocator asserts the limit); the MiB-sized requests are made with Default (where the plan has no non-LOS limit), Los and Immortal only (Code, ReadOnly, LargeCode use the same allocator and space types as Immortal; under NoGC, where all semantics share one bump allocator and nothing is reclaimed, with Default and Los)");
}

pub fn replay(case: &Value, run: &mut Run) {
    let plan = case["plan"].as_str().unwrap_or("SemiSpace").to_string();
    let tier = case["tier"].as_str().unwrap_or(run.tier.name()).to_string();
    let pre = case["pre"].as_u64().unwrap_or(0).to_string();
    let base = vec!["--child".to_string(), "C03".to_string(), plan.clone(), tier, "replay".to_string(), pre.clone(), serde_json::to_string(case).unwrap()];
    let name = vec![format!("{}/{}", plan, PRE_NAMES[pre.parse::<usize>().unwrap_or(0).min(3)])];
    let r = run_children(vec![base.clone()], 1, 600);
    let before = run.violations.len();
    let _ = absorb(run, &name, r);
    if run.violations.len() == before {
        let mut a = base;
        a.push("prefix".to_string());
        let r = run_children(vec![a], 1, 3000);
        let _ = absorb(run, &name, r);
    }
}
