//! C15 — stop-the-world stages open in order; each packet runs exactly once (engine `baton`,
//! persistent mode, real `MMTK<VerifVM>`; infrastructure in `props/sched.rs`, scenarios as C14).
//!
//! Oracle over the event log of every execution (signatures `stage:`): a sequentially opened
//! bucket is opened only by the worker that is inside its last-parked decision, while all workers
//! are parked, no packet is running, every packet added so far that is not waiting in a still
//! closed bucket has been executed, and no later bucket is open; the first STW bucket opens only
//! after the mutators were stopped; when the collection is declared finished every packet added
//! during it (by type) has been started and ended exactly as often as it was added, every sentinel
//! that was set has been scheduled, every harness packet of the spawning pattern was added once and
//! run once; no packet starts outside a collection or after `resume_mutators`; when the mutators
//! are resumed, and at quiescence, every STW bucket is closed and empty.  The binding additionally
//! checks inside every `process_weak_refs` call that the closure spawned so far is complete (C13's
//! oracle, `heap:weak:` signatures) and the heap is verified after every collection (`heap:`).

use crate::common::Run;
use crate::props::{c14, sched};
use serde_json::Value;

pub fn owns(sig: &str) -> bool {
    // a failing assertion of mmtk-core's scheduler (e.g. designated work left when the GC is declared
    // finished, a non-empty open bucket when all workers are parked) is a packet that was not run in
    // its stage: C15's as well as C14's
    (sig.starts_with("stage:") || sig.starts_with("heap:weak:") || sig.starts_with("sched:crash:")) && !sig.ends_with(":fork")
}

pub fn run(run: &mut Run) {
    let plans = c14::plans(run.tier, false);
    run.set("child_processes", plans.len() as u64);
    sched::run_parent(run, plans, &owns, run.tier.pick(300, 3000));
    c14::finish(run);
}

pub fn replay(case: &Value, run: &mut Run) {
    sched::replay("C15", case, run);
}

pub fn child(args: &[String]) {
    sched::child("C15", args);
}
