//! C25 side-metadata sanity check: all ordered pairs (and some triples) of global specs and of
//! local specs over a grid of widths, region sizes and offsets placed around each other's range
//! ends, through the real check that plan creation runs (`verify_metadata_context`), against
//! plain interval overlap.

use super::c20::init_side_metadata;
use crate::common::{catch, Run};
use mmtk::util::metadata::side_metadata::{verif_hooks, SideMetadataSpec};
use serde_json::{json, Value};

const NAMES: [&str; 3] = ["verif-c25-a", "verif-c25-b", "verif-c25-c"];

fn spec(i: usize, global: bool, offset: usize, log_bits: usize, log_region: usize) -> SideMetadataSpec {
    SideMetadataSpec { name: NAMES[i], is_global: global, offset, log_num_of_bits: log_bits, log_bytes_in_region: log_region }
}

fn size(s: &SideMetadataSpec) -> usize {
    verif_hooks::metadata_address_range_size(s)
}

fn overlaps(a: &SideMetadataSpec, b: &SideMetadataSpec) -> bool {
    let (a0, a1) = (a.offset as u128, a.offset as u128 + size(a) as u128);
    let (b0, b1) = (b.offset as u128, b.offset as u128 + size(b) as u128);
    a0 < b1 && b0 < a1
}

/// The documented size limits (not part of the property: sets exceeding them are not offered).
fn within_limits(specs: &[SideMetadataSpec], global: bool) -> bool {
    let limit: u128 = 1u128 << (47 - 1);
    if global {
        specs.iter().map(|s| size(s) as u128).sum::<u128>() <= limit
    } else {
        specs.iter().all(|s| size(s) as u128 <= limit)
    }
}

fn run_set(specs: &[SideMetadataSpec], global: bool) -> Result<bool, (String, String)> {
    let expect_reject = (0..specs.len()).any(|i| (i + 1..specs.len()).any(|j| overlaps(&specs[i], &specs[j])));
    let r = catch(|| {
        if global {
            verif_hooks::verify_metadata_context(specs, &[])
        } else {
            verif_hooks::verify_metadata_context(&[], specs)
        }
    });
    let desc = || specs.iter().map(|s| format!("[{:#x},+{:#x})", s.offset, size(s))).collect::<Vec<_>>().join(" ");
    match (r, expect_reject) {
        (Ok(()), true) => Err(("accepted_overlap".into(), format!("overlapping {} specs accepted: {}", if global { "global" } else { "local" }, desc()))),
        (Err(p), false) => Err(("rejected_disjoint".into(), format!("disjoint {} specs rejected ({}): {}", if global { "global" } else { "local" }, p.lines().next().unwrap_or(""), desc()))),
        _ => Ok(expect_reject),
    }
}

fn set_json(specs: &[SideMetadataSpec], global: bool) -> Value {
    json!({"global": global, "specs": specs.iter().map(|s| json!({"offset": s.offset, "log_bits": s.log_num_of_bits, "log_region": s.log_bytes_in_region})).collect::<Vec<_>>()})
}

pub fn run(run: &mut Run) {
    init_side_metadata();
    let thorough = run.tier == crate::common::Tier::Thorough;
    let shapes: Vec<(usize, usize)> = {
        let mut v = vec![];
        for log_bits in 0..=6usize {
            for log_region in if thorough { vec![3usize, 4, 12, 22] } else { vec![3usize, 12, 22] } {
                v.push((log_bits, log_region));
            }
        }
        v
    };
    let mut evaluations = 0u64;
    let mut rejected = 0u64;
    let mut accepted = 0u64;
    let mut classes = std::collections::BTreeSet::new();
    for global in [true, false] {
        for &(ba, ra) in &shapes {
            for &(bb, rb) in &shapes {
                let sa = size(&spec(0, global, 0, ba, ra));
                let sb = size(&spec(1, global, 0, bb, rb));
                // A at several bases (so that both offsets can exceed the other's size), B placed
                // around A's range
                for a_off in [0usize, sb, 3 * sb, 3 * sa.max(sb)] {
                    let a = spec(0, global, a_off, ba, ra);
                    let mut b_offs: Vec<i128> = vec![
                        a_off as i128 - sb as i128,
                        a_off as i128 - sb as i128 + 8,
                        a_off as i128 - 8,
                        a_off as i128,
                        a_off as i128 + 8,
                        a_off as i128 + (sa / 2) as i128,
                        a_off as i128 + sa as i128 - 8,
                        a_off as i128 + sa as i128,
                        a_off as i128 + sa as i128 + 8,
                        a_off as i128 + 2 * sa as i128,
                        a_off as i128 + 5 * sa as i128,
                    ];
                    b_offs.retain(|x| *x >= 0 && *x < (1i128 << 50));
                    b_offs.sort();
                    b_offs.dedup();
                    for bo in b_offs {
                        let b = spec(1, global, bo as usize, bb, rb);
                        for set in [vec![a, b], vec![b, a]] {
                            if !within_limits(&set, global) {
                                continue;
                            }
                            evaluations += 1;
                            match run_set(&set, global) {
                                Ok(rej) => {
                                    if rej {
                                        rejected += 1;
                                    } else {
                                        accepted += 1;
                                    }
                                    classes.insert((rej, a_off >= sb && bo as usize >= sa, global));
                                    if evaluations % 40_001 == 7 {
                                        run.sample(json!({"set": set_json(&set, global), "overlap": rej}));
                                    }
                                }
                                Err((sig, msg)) => {
                                    let both_beyond = a_off >= sb && bo as usize >= sa;
                                    run.violation(format!("{}:{}{}", sig, if global { "global" } else { "local" }, if both_beyond { ":both_offsets_beyond_other_size" } else { "" }), msg, set_json(&set, global));
                                }
                            }
                        }
                        // triples: a third spec far away (disjoint) must not change the verdict
                        if ba == bb && ra == rb && (ba + ra) % 3 == 0 {
                            let c = spec(2, global, a_off + 40 * sa.max(sb), 0, 12);
                            let set = vec![a, c, b];
                            if within_limits(&set, global) {
                                evaluations += 1;
                                match run_set(&set, global) {
                                    Ok(rej) => {
                                        if rej {
                                            rejected += 1
                                        } else {
                                            accepted += 1
                                        }
                                    }
                                    Err((sig, msg)) => run.violation(format!("{}:{}:triple", sig, if global { "global" } else { "local" }), msg, set_json(&set, global)),
                                }
                            }
                        }
                    }
                }
            }
        }
    }
    run.sample(json!({"set": {"global": true, "specs": [{"offset": 0, "log_bits": 0, "log_region": 3}, {"offset": 8, "log_bits": 0, "log_region": 3}]}, "overlap": true}));
    run.set("states", (shapes.len() * shapes.len() * 2) as u64);
    run.set("transitions", evaluations);
    run.set("evaluations", evaluations);
    run.set("traces_validated_against_impl", evaluations);
    run.set("distinct_nontrivial", rejected.min(accepted));
    run.set("sets_rejected", rejected);
    run.set("sets_accepted", accepted);
    run.set("distinct_outcome_classes", classes.len() as u64);
    run.set("exhaustive", true);
    run.set("max_depth", 1);
    run.set("rule", "all ordered pairs of spec shapes (widths 1..64 bits x region sizes {8 B, 4 KiB, 4 MiB(, 16 B)}), as global pairs and as local pairs, spec A at offsets {0, S_B, 3 S_B, 3 max(S_A,S_B)} and B at {A-S_B, A-S_B+8, A-8, A, A+8, A+S_A/2, A+S_A-8, A+S_A, A+S_A+8, A+2S_A, A+5S_A}, both declaration orders, plus triples with a far third spec; sets over the documented total-size limits are not offered; verdict of the real verify_metadata_context (panic / no panic) vs. interval overlap; distinct_nontrivial = min(#rejected, #accepted) (both directions exercised)");
    run.assume("sets respect the documented size limits (global total <= 2^46, each local <= 2^46): those are separate checks");
}

pub fn replay(case: &Value, run: &mut Run) {
    init_side_metadata();
    let global = case["global"].as_bool().unwrap();
    let specs: Vec<SideMetadataSpec> = case["specs"].as_array().unwrap().iter().enumerate().map(|(i, s)| spec(i, global, s["offset"].as_u64().unwrap() as usize, s["log_bits"].as_u64().unwrap() as usize, s["log_region"].as_u64().unwrap() as usize)).collect();
    if let Err((sig, msg)) = run_set(&specs, global) {
        run.violation(sig, msg, case.clone());
    }
}
