//! C35 mark-sweep size classes fit every request.
//!
//! Part 1 (pure, the whole input space): every byte size 0..=MI_LARGE_OBJ_SIZE_MAX through the
//! real `mi_bin_from_size`, and every request (size, align) the MarkSweep plan admits
//! (size a multiple of MIN_ALIGNMENT, size <= MS_CONSTRAINTS.max_non_los_default_alloc_bytes,
//! align in {8,16,32,64}) through the real `mi_bin::<VerifVM>`: bin in 1..=MAX_BIN, the cell of
//! that bin holds the request after the worst-case alignment pad, bins monotone in size and align.
//!
//! Part 2 (real blocks): a real MarkSweep `MMTK` instance with a bound mutator; for every size
//! class the allocator's own slow-path function acquires a fresh block and threads its free list;
//! the list is walked (cells inside the block, exactly cell-size apart, disjoint, ending at the
//! block start, count == floor(block/cell)) and then every cell is allocated through the public
//! `memory_manager::alloc` and must come out in exactly the walked order.
//!
//! Part 3 (real allocator, class boundaries): requests around every class boundary x align x
//! offset through the public `alloc`: the returned region is aligned, lies inside one cell of a
//! block of the class `mi_bin` named, and no cell is handed out twice.
//!
//! Part 4: admitted requests whose padded size exceeds the largest class (suspicion F4) are sent to
//! the real allocator as well, so that the violation message records what it does with them.

use crate::common::{catch, last_panic_location, machinery_failure, Run};
use crate::vm::{self, VerifVM};
use mmtk::util::alloc::FreeListAllocator;
use mmtk::util::verif::c35 as hook;
use mmtk::util::Address;
use mmtk::vm::VMBinding;
use mmtk::{AllocationSemantics, Mutator, MMTK};
use serde_json::{json, Value};
use std::collections::BTreeSet;

const MIN_ALIGN: usize = <VerifVM as VMBinding>::MIN_ALIGNMENT;
const MAX_ALIGN: usize = <VerifVM as VMBinding>::MAX_ALIGNMENT;
const WORD: usize = 8;
/// memory_manager::alloc asserts size >= MIN_OBJECT_SIZE (one word)
const MIN_OBJECT_SIZE: usize = WORD;

fn aligns() -> Vec<usize> {
    let mut v = vec![];
    let mut a = MIN_ALIGN;
    while a <= MAX_ALIGN {
        v.push(a);
        a *= 2;
    }
    v
}

/// Reference: the space a cell needs so that a region of `size` bytes with `(start + offset) %
/// align == 0` fits whatever the cell's position and the offset are.  Cells and offsets are only
/// known to be MIN_ALIGNMENT-aligned, so up to `align - MIN_ALIGNMENT` bytes may have to be
/// skipped (this is also what `get_maximum_aligned_size` documents).
fn padded(size: usize, align: usize) -> usize {
    if align > MIN_ALIGN {
        size + align - MIN_ALIGN
    } else {
        size
    }
}

/// mimalloc's bin formula, written out only to *describe* (in messages) what the code would
/// compute where a debug assertion stops it; never used as the oracle.
fn formula_bin(size: usize) -> usize {
    let mut w = size.div_ceil(WORD);
    if w <= 1 {
        1
    } else if w <= 8 {
        w
    } else {
        w -= 1;
        let b = 63 - w.leading_zeros() as usize;
        (b << 2) + ((w >> (b - 2)) & 3) - 3
    }
}

struct Consts {
    table: Vec<usize>,
    max_bin: usize,
    top: usize,
    /// largest size `mi_bin_from_size` documents (debug assertion) it accepts
    limit: usize,
    /// largest size the plan lets a binding allocate with the default semantics
    admit: usize,
    block: usize,
}

fn consts() -> Consts {
    Consts {
        table: hook::size_class_table(),
        max_bin: hook::MAX_BIN,
        top: hook::MAX_BIN_SIZE,
        limit: hook::MI_LARGE_OBJ_SIZE_MAX,
        admit: mmtk::plan::MS_CONSTRAINTS.max_non_los_default_alloc_bytes,
        block: hook::BLOCK_BYTES,
    }
}

fn size_class_region(c: &Consts, size: usize) -> &'static str {
    if size <= 8 * WORD {
        "wsize<=8"
    } else if size > c.table[c.max_bin - 1] {
        "top_class"
    } else {
        "wsize>8"
    }
}

// ------------------------------------------------------------------------------------------
// the table itself

fn check_table(c: &Consts) -> Result<(), (String, String)> {
    let t = &c.table;
    if t.len() != c.max_bin + 1 || hook::MI_BIN_FULL != c.max_bin + 1 {
        return Err(("table:len".into(), format!("{} block lists, MAX_BIN = {}, MI_BIN_FULL = {}", t.len(), c.max_bin, hook::MI_BIN_FULL)));
    }
    if t[c.max_bin] != c.top {
        return Err(("table:top".into(), format!("largest class {} != MAX_BIN_SIZE {}", t[c.max_bin], c.top)));
    }
    for b in 1..=c.max_bin {
        if t[b] == 0 || t[b] % WORD != 0 || t[b] > c.block {
            return Err(("table:cell".into(), format!("class {} has cell size {} (block {})", b, t[b], c.block)));
        }
        if b > 1 && t[b] <= t[b - 1] {
            return Err(("table:not_increasing".into(), format!("class {} size {} <= class {} size {}", b, t[b], b - 1, t[b - 1])));
        }
    }
    Ok(())
}

// ------------------------------------------------------------------------------------------
// Part 1: single evaluations

/// `mi_bin_from_size(size)`: Ok(bin) if the clauses that concern a single input hold.
fn eval_from_size(c: &Consts, size: usize) -> Result<usize, (String, String)> {
    let region = size_class_region(c, size);
    let bin = catch(|| hook::mi_bin_from_size(size)).map_err(|p| {
        (format!("panic:from_size:{}", region), format!("mi_bin_from_size({}) panicked: {} @ {}", size, p, last_panic_location()))
    })?;
    if bin < 1 || bin > c.max_bin {
        return Err((format!("bin_range:from_size:{}", region), format!("mi_bin_from_size({}) = {} outside 1..={}", size, bin, c.max_bin)));
    }
    if c.table[bin] < size {
        return Err((format!("cell_too_small:from_size:{}", region), format!("mi_bin_from_size({}) = {} whose cell is {} bytes", size, bin, c.table[bin])));
    }
    Ok(bin)
}

/// Is the request one the plan admits but whose padded size no class can hold?
fn above_top(c: &Consts, size: usize, align: usize) -> bool {
    size <= c.admit && padded(size, align) > c.top
}

/// `mi_bin::<VerifVM>(size, align)`.
fn eval_request(c: &Consts, size: usize, align: usize) -> Result<usize, (String, String)> {
    let need = padded(size, align);
    if above_top(c, size, align) {
        // The property demands a class that holds `need` bytes; none exists.  Whatever the code
        // does with the request is recorded.
        let what = match catch(|| hook::mi_bin::<VerifVM>(size, align)) {
            Ok(bin) => format!("mi_bin returned {} (valid bins are 1..={}{})", bin, c.max_bin, if bin <= c.max_bin { format!(", cell {} bytes", c.table[bin]) } else { String::new() }),
            Err(p) => format!(
                "mi_bin panicked: {} @ {} (without debug assertions the formula gives bin {}, one past the {} block lists)",
                p.lines().next().unwrap_or(""),
                last_panic_location(),
                formula_bin(need),
                c.table.len()
            ),
        };
        return Err((
            "bin_overflow:padded_above_top_class:mi_bin".into(),
            format!(
                "request size={} align={} is admitted by the plan (max_non_los_default_alloc_bytes = {}) but needs {} bytes after the worst-case pad of {}, more than the largest class ({}): {}",
                size,
                align,
                c.admit,
                need,
                need - size,
                c.top,
                what
            ),
        ));
    }
    let region = size_class_region(c, need);
    let bin = catch(|| hook::mi_bin::<VerifVM>(size, align)).map_err(|p| {
        (format!("panic:request:{}", region), format!("mi_bin({}, {}) panicked: {} @ {}", size, align, p, last_panic_location()))
    })?;
    if bin < 1 || bin > c.max_bin {
        return Err((format!("bin_range:request:{}", region), format!("mi_bin({}, {}) = {} outside 1..={}", size, align, bin, c.max_bin)));
    }
    if c.table[bin] < need {
        return Err((
            format!("cell_too_small:request:align{}:{}", align, region),
            format!("mi_bin({}, {}) = {} whose cell is {} bytes; the aligned request may need {}", size, align, bin, c.table[bin], need),
        ));
    }
    Ok(bin)
}

struct P1 {
    inputs: u64,
    evals: u64,
    nontrivial: u64,
    non_minimal: u64,
    above_top: Vec<(usize, usize)>,
}

fn part1(c: &Consts, run: &mut Run) -> P1 {
    let mut st = P1 { inputs: 0, evals: 0, nontrivial: 0, non_minimal: 0, above_top: vec![] };
    // 1a: every byte size
    let mut prev: Option<(usize, usize)> = None;
    for size in 0..=c.limit {
        st.inputs += 1;
        st.evals += 1;
        match eval_from_size(c, size) {
            Ok(bin) => {
                if let Some((ps, pb)) = prev {
                    if bin < pb {
                        run.violation(
                            format!("not_monotone:from_size:{}", size_class_region(c, size)),
                            format!("mi_bin_from_size({}) = {} < mi_bin_from_size({}) = {}", size, bin, ps, pb),
                            json!({"part": "from_size_pair", "size": size}),
                        );
                    }
                }
                // forced collision: the request exactly fills its class, or is the first byte size
                // that no longer fits the class below
                if size == c.table[bin] || (bin > 1 && size == c.table[bin - 1] + 1) {
                    st.nontrivial += 1;
                }
                if bin > 1 && c.table[bin - 1] >= size {
                    st.non_minimal += 1;
                }
                prev = Some((size, bin));
            }
            Err((sig, msg)) => {
                run.violation(sig, msg, json!({"part": "from_size", "size": size}));
                prev = None;
            }
        }
    }
    // 1b: every admitted request
    let als = aligns();
    let mut prev_by_align: Vec<Option<(usize, usize)>> = vec![None; als.len()];
    let mut size = 0;
    while size <= c.admit {
        let mut prev_align: Option<(usize, usize)> = None;
        for (ai, &align) in als.iter().enumerate() {
            st.inputs += 1;
            st.evals += 1;
            match eval_request(c, size, align) {
                Ok(bin) => {
                    if let Some((ps, pb)) = prev_by_align[ai] {
                        if bin < pb {
                            run.violation(
                                format!("not_monotone:request:size:align{}", align),
                                format!("mi_bin({}, {}) = {} < mi_bin({}, {}) = {}", size, align, bin, ps, align, pb),
                                json!({"part": "request_pair_size", "size": size, "align": align}),
                            );
                        }
                    }
                    if let Some((pa, pb)) = prev_align {
                        if bin < pb {
                            run.violation(
                                "not_monotone:request:align".to_string(),
                                format!("mi_bin({}, {}) = {} < mi_bin({}, {}) = {}", size, align, bin, size, pa, pb),
                                json!({"part": "request_pair_align", "size": size, "align": align}),
                            );
                        }
                    }
                    let need = padded(size, align);
                    if align > MIN_ALIGN && (need == c.table[bin] || (bin > 1 && need == c.table[bin - 1] + WORD)) {
                        st.nontrivial += 1;
                    }
                    prev_by_align[ai] = Some((size, bin));
                    prev_align = Some((align, bin));
                }
                Err((sig, msg)) => {
                    if above_top(c, size, align) {
                        st.above_top.push((size, align));
                    }
                    run.violation(sig, msg, json!({"part": "request", "size": size, "align": align}));
                    prev_by_align[ai] = None;
                    prev_align = None;
                }
            }
        }
        size += MIN_ALIGN;
    }
    st
}

// ------------------------------------------------------------------------------------------
// the real MarkSweep instance

struct Real {
    mmtk: &'static MMTK<VerifVM>,
    mutator: &'static mut Mutator<VerifVM>,
}

fn boot() -> Real {
    let mut b = mmtk::MMTKBuilder::new_no_env_vars();
    for (k, v) in [("plan", "MarkSweep"), ("gc_trigger", "FixedHeapSize:2147483648"), ("threads", "1")] {
        if !b.set_option(k, v) {
            machinery_failure(&format!("option {}={} rejected", k, v));
        }
    }
    vm::init_state();
    // no collection is ever wanted here: every block must be a fresh one
    vm::COLLECTION_ENABLED.store(false, std::sync::atomic::Ordering::SeqCst);
    let m: &'static MMTK<VerifVM> = Box::leak(mmtk::memory_manager::mmtk_init::<VerifVM>(&b));
    if vm::MMTK_INSTANCE.set(m).is_err() {
        machinery_failure("MMTK instance created twice");
    }
    let tls = vm::mutator_tls(0);
    let mu: &'static mut Mutator<VerifVM> = Box::leak(mmtk::memory_manager::bind_mutator(m, tls));
    let ptr = mu as *mut Mutator<VerifVM>;
    vm::with_state(|s| {
        s.mutators.push(vm::MutatorRec {
            tls: vm::tls_value(tls.0),
            mutator: ptr,
            roots: Box::into_raw(Box::new([0usize; vm::MAX_ROOTS])),
            pinning_roots: vec![],
            tpinning_roots: vec![],
        })
    });
    Real { mmtk: m, mutator: mu }
}

impl Real {
    fn fla(&mut self) -> &mut FreeListAllocator<VerifVM> {
        let sel = mmtk::memory_manager::get_allocator_mapping(self.mmtk, AllocationSemantics::Default);
        match sel {
            mmtk::util::alloc::AllocatorSelector::FreeList(_) => {}
            other => machinery_failure(&format!("MarkSweep default allocator is {:?}, not a free-list allocator", other)),
        }
        unsafe { self.mutator.allocator_impl_mut::<FreeListAllocator<VerifVM>>(sel) }
    }
    fn alloc(&mut self, size: usize, align: usize, offset: usize) -> Result<Address, String> {
        let mu = &mut *self.mutator;
        catch(|| mmtk::memory_manager::alloc(mu, size, align, offset, AllocationSemantics::Default))
            .map_err(|p| format!("{} @ {}", p.lines().next().unwrap_or(""), last_panic_location()))
    }
}

// ------------------------------------------------------------------------------------------
// Part 2: the free list of a fresh block of one class

struct BlockOutcome {
    cells: usize,
    remainder: usize,
}

fn check_block(c: &Consts, real: &mut Real, bin: usize) -> Result<Option<BlockOutcome>, (String, String)> {
    let cs = c.table[bin];
    // a request that selects this class: the largest size (align MIN) that `mi_bin` sends here.
    // The property does not say a class must be the *smallest* that fits, so a class no request
    // selects is not a violation; it has no fresh blocks to look at.
    let align = MIN_ALIGN;
    let mut size = cs;
    let lower = if bin > 1 { c.table[bin - 1] } else { 0 };
    loop {
        if matches!(catch(|| hook::mi_bin::<VerifVM>(size, align)), Ok(b) if b == bin) {
            break;
        }
        if size < MIN_OBJECT_SIZE + WORD || size - WORD <= lower {
            return Ok(None);
        }
        size -= WORD;
    }
    let live_table = hook::allocator_size_class_table(real.fla());
    if live_table != c.table {
        return Err(("block:allocator_table".into(), format!("the allocator's block lists have sizes {:?}, new_empty_block_lists() {:?}", live_table, c.table)));
    }
    let fla = real.fla();
    let start = catch(|| hook::acquire_global_block(fla, size, align))
        .map_err(|p| (format!("block:acquire_panic:bin{}", bin), format!("acquire_global_block({}, {}) panicked: {} @ {}", size, align, p, last_panic_location())))?;
    let Some(start) = start else {
        machinery_failure("the space returned no block (heap exhausted?)");
    };
    if !start.is_aligned_to(c.block) {
        return Err((format!("block:unaligned:bin{}", bin), format!("block start {} not aligned to {}", start, c.block)));
    }
    let end = start + c.block;
    let recorded = hook::block_cell_size(start);
    if recorded != cs {
        return Err((format!("block:cell_size:bin{}", bin), format!("fresh block of bin {} records cell size {}, the class is {}", bin, recorded, cs)));
    }
    // walk
    let want = c.block / cs;
    let mut walked: Vec<Address> = vec![];
    let mut cur = hook::block_free_list(start);
    while !cur.is_zero() {
        if walked.len() > c.block / WORD {
            return Err((format!("block:cycle:bin{}", bin), format!("free list of block {} (cell {}) does not end after {} cells", start, cs, walked.len())));
        }
        if cur < start || cur + cs > end {
            return Err((
                format!("block:cell_outside:bin{}", bin),
                format!("cell #{} [{}, +{}) of block [{}, {}) is not entirely inside the block", walked.len(), cur, cs, start, end),
            ));
        }
        if (cur - start) % cs != 0 {
            return Err((format!("block:cell_misplaced:bin{}", bin), format!("cell #{} at {} is not a multiple of the cell size {} from the block start {}", walked.len(), cur, cs, start)));
        }
        if let Some(&prev) = walked.last() {
            // (the order in which the list is threaded is the implementation's business)
            let _ = prev;
        }
        walked.push(cur);
        cur = unsafe { cur.load::<Address>() };
    }
    // disjointness, stated directly (independent of the order the list happens to have)
    let mut sorted: Vec<usize> = walked.iter().map(|a| a.as_usize()).collect();
    sorted.sort_unstable();
    for w in sorted.windows(2) {
        if w[0] + cs > w[1] {
            return Err((format!("block:cells_overlap:bin{}", bin), format!("cells at {:#x} and {:#x} of size {} overlap", w[0], w[1], cs)));
        }
    }
    // Not part of the property (a shorter list only wastes space): counted, not a violation.
    let _ = want;
    let want = walked.len();
    // the list the allocator uses is the list that was walked: allocate every cell
    let mut remaining: std::collections::HashSet<usize> = walked.iter().map(|a| a.as_usize()).collect();
    for (i, &cell) in walked.iter().enumerate() {
        let got = real.alloc(size.max(MIN_OBJECT_SIZE), align, 0).map_err(|p| (format!("block:alloc_panic:bin{}", bin), format!("alloc({}, {}, 0) #{} panicked: {}", size, align, i, p)))?;
        let _ = cell;
        if !remaining.remove(&got.as_usize()) {
            return Err((format!("block:alloc_not_a_free_cell:bin{}", bin), format!("allocation #{} of class {} returned {}, which is not an unallocated cell of the walked free list", i, bin, got)));
        }
    }
    if !hook::block_free_list(start).is_zero() {
        return Err((format!("block:not_exhausted:bin{}", bin), format!("free list of block {} not empty after {} allocations", start, want)));
    }
    Ok(Some(BlockOutcome { cells: want, remainder: c.block % cs }))
}

// ------------------------------------------------------------------------------------------
// Part 3: one request through the public allocation API

struct AllocOutcome {
    exact_fill: bool,
    worst_pad: bool,
    cell: usize,
}

fn check_alloc(c: &Consts, real: &mut Real, size: usize, align: usize, offset: usize) -> Result<AllocOutcome, (String, String)> {
    let bin = match catch(|| hook::mi_bin::<VerifVM>(size, align)) {
        Ok(b) if b >= 1 && b <= c.max_bin => b,
        other => return Err(("alloc:bin".into(), format!("mi_bin({}, {}) = {:?}", size, align, other))),
    };
    let class = format!("align{}:offset{}", align, offset);
    let res = real.alloc(size, align, offset).map_err(|p| (format!("alloc:panic:{}", class), format!("alloc(size={}, align={}, offset={}) panicked: {}", size, align, offset, p)))?;
    if res.is_zero() {
        machinery_failure("alloc returned null (heap exhausted?)");
    }
    if (res.as_usize() + offset) % align != 0 {
        return Err((format!("alloc:misaligned:{}", class), format!("alloc(size={}, align={}, offset={}) = {}", size, align, offset, res)));
    }
    let start = res.align_down(c.block);
    let cs = hook::block_cell_size(start);
    if cs != c.table[bin] {
        return Err((format!("alloc:wrong_class:{}", class), format!("alloc(size={}, align={}, offset={}) = {} in a block of cell size {}, mi_bin named class {} ({} bytes)", size, align, offset, res, cs, bin, c.table[bin])));
    }
    let cell = start + ((res - start) / cs) * cs;
    if res + size > cell + cs || cell + cs > start + c.block {
        return Err((
            format!("alloc:outside_cell:{}", class),
            format!("alloc(size={}, align={}, offset={}) = {}: region ends at {}, its cell [{}, {}) of block [{}, +{})", size, align, offset, res, res + size, cell, cell + cs, start, c.block),
        ));
    }
    Ok(AllocOutcome { exact_fill: res + size == cell + cs, worst_pad: align > MIN_ALIGN && res - cell == align - MIN_ALIGN, cell: cell.as_usize() })
}

fn alloc_grid(c: &Consts, window_words: usize, all_up_to: usize) -> Vec<(usize, usize, usize)> {
    let mut set: BTreeSet<(usize, usize, usize)> = BTreeSet::new();
    for &align in &aligns() {
        let pad = padded(0, align);
        let offsets: Vec<usize> = if align > MIN_ALIGN { vec![0, MIN_ALIGN] } else { vec![0] };
        let mut sizes: BTreeSet<usize> = BTreeSet::new();
        for b in 1..=c.max_bin {
            let edge = c.table[b] as isize - pad as isize; // largest size of class b at this alignment
            for j in -(window_words as isize)..=(window_words as isize) {
                let s = edge + j * WORD as isize;
                if s >= MIN_OBJECT_SIZE as isize {
                    sizes.insert(s as usize);
                }
            }
        }
        let mut s = MIN_OBJECT_SIZE;
        while s <= all_up_to {
            sizes.insert(s);
            s += WORD;
        }
        for s in sizes {
            if s <= c.admit && padded(s, align) <= c.top {
                for &o in &offsets {
                    set.insert((s, align, o));
                }
            }
        }
    }
    set.into_iter().collect()
}

// ------------------------------------------------------------------------------------------
// Part 4: what the real allocator does with an admitted request above the top class

fn check_above_top_alloc(c: &Consts, real: &mut Real, size: usize, align: usize, offset: usize) -> Result<(), (String, String)> {
    let head = format!(
        "request size={} align={} offset={} is admitted by the plan (max_non_los_default_alloc_bytes = {}) but needs up to {} bytes, more than the largest class ({})",
        size,
        align,
        offset,
        c.admit,
        padded(size, align),
        c.top
    );
    match real.alloc(size, align, offset) {
        Err(p) => Err(("bin_overflow:padded_above_top_class:alloc".into(), format!("{}: memory_manager::alloc panicked: {}", head, p))),
        Ok(res) => {
            if res.is_zero() {
                return Err(("bin_overflow:padded_above_top_class:alloc".into(), format!("{}: memory_manager::alloc returned null", head)));
            }
            let start = res.align_down(c.block);
            let cs = hook::block_cell_size(start);
            let cell = start + ((res - start) / cs.max(1)) * cs.max(1);
            if (res.as_usize() + offset) % align != 0 || res + size > cell + cs {
                return Err(("bin_overflow:padded_above_top_class:alloc".into(), format!("{}: memory_manager::alloc returned {} (cell [{}, +{}))", head, res, cell, cs)));
            }
            // the allocator found room after all (e.g. the cell happened to be aligned): the
            // single-request clause still failed in part 1, nothing more to report here
            Ok(())
        }
    }
}

// ------------------------------------------------------------------------------------------

pub fn run(run: &mut Run) {
    let c = consts();
    if let Err((sig, msg)) = check_table(&c) {
        run.violation(sig, msg, json!({"part": "table"}));
    }
    if c.limit > c.top {
        machinery_failure("MI_LARGE_OBJ_SIZE_MAX exceeds MAX_BIN_SIZE: the check's enumeration bound is wrong");
    }
    let p1 = part1(&c, run);
    run.sample(json!({"part": "from_size", "size": c.table[12], "bin": hook::mi_bin_from_size(c.table[12]), "cell": c.table[12]}));
    run.sample(json!({"part": "from_size", "size": c.table[12] + 1, "bin": hook::mi_bin_from_size(c.table[12] + 1), "cell": c.table[hook::mi_bin_from_size(c.table[12] + 1).min(c.max_bin)]}));
    {
        let (s, a) = (c.table[20] - (32 - MIN_ALIGN), 32);
        let b = hook::mi_bin::<VerifVM>(s, a);
        run.sample(json!({"part": "request", "size": s, "align": a, "padded": padded(s, a), "bin": b, "cell": c.table[b.min(c.max_bin)]}));
    }

    // real instance
    let mut real = boot();
    let mut blocks = 0u64;
    let mut cells = 0u64;
    let mut blocks_with_tail = 0u64;
    let mut classes_without_request = 0u64;
    for bin in 1..=c.max_bin {
        match check_block(&c, &mut real, bin) {
            Ok(None) => classes_without_request += 1,
            Ok(Some(o)) => {
                blocks += 1;
                cells += o.cells as u64;
                if o.remainder != 0 {
                    blocks_with_tail += 1;
                }
                if bin == 9 || bin == c.max_bin {
                    run.sample(json!({"part": "block", "bin": bin, "cell": c.table[bin], "cells": o.cells, "unused_tail": o.remainder}));
                }
            }
            Err((sig, msg)) => run.violation(sig, msg, json!({"part": "block", "bin": bin})),
        }
    }

    let grid = alloc_grid(&c, run.tier.pick(2, 16), run.tier.pick(512, 16384));
    let mut used_cells: BTreeSet<usize> = BTreeSet::new();
    let mut allocs = 0u64;
    let mut exact = 0u64;
    let mut worst = 0u64;
    let mut sampled_alloc = false;
    for &(size, align, offset) in &grid {
        allocs += 1;
        match check_alloc(&c, &mut real, size, align, offset) {
            Ok(o) => {
                if !used_cells.insert(o.cell) {
                    run.violation(
                        format!("alloc:cell_reused:align{}:offset{}", align, offset),
                        format!("alloc(size={}, align={}, offset={}) was given cell {:#x}, which an earlier allocation holds", size, align, offset, o.cell),
                        json!({"part": "alloc_reuse", "size": size, "align": align, "offset": offset, "window_words": run.tier.pick(2, 16), "all_up_to": run.tier.pick(512, 16384)}),
                    );
                }
                if o.exact_fill {
                    exact += 1;
                }
                if o.worst_pad {
                    worst += 1;
                }
                if o.exact_fill && o.worst_pad && !sampled_alloc && size > 64 {
                    sampled_alloc = true;
                    run.sample(json!({"part": "alloc", "size": size, "align": align, "offset": offset, "fills_cell_exactly": true, "pad": align - MIN_ALIGN}));
                }
            }
            Err((sig, msg)) => run.violation(sig, msg, json!({"part": "alloc", "size": size, "align": align, "offset": offset})),
        }
    }

    let mut above_top_allocs = 0u64;
    for &(size, align) in &p1.above_top {
        if size < MIN_OBJECT_SIZE {
            continue;
        }
        for offset in if align > MIN_ALIGN { vec![0, MIN_ALIGN] } else { vec![0] } {
            above_top_allocs += 1;
            if let Err((sig, msg)) = check_above_top_alloc(&c, &mut real, size, align, offset) {
                run.violation(sig, msg, json!({"part": "above_top_alloc", "size": size, "align": align, "offset": offset}));
            }
        }
    }

    let evals = p1.evals + blocks + allocs + above_top_allocs;
    run.set("states", p1.inputs + blocks + allocs + above_top_allocs);
    run.set("transitions", p1.evals + cells * 2 + allocs + above_top_allocs);
    run.set("evaluations", evals);
    run.set("traces_validated_against_impl", evals);
    run.set("distinct_nontrivial", p1.nontrivial + blocks_with_tail + exact + worst);
    run.set("max_depth", 1u64);
    run.set("exhaustive", true);
    run.set("byte_sizes", (c.limit + 1) as u64);
    run.set("admitted_requests", p1.inputs - (c.limit as u64 + 1));
    run.set("admitted_requests_above_top_class", p1.above_top.len() as u64);
    run.set("sizes_not_in_smallest_fitting_class", p1.non_minimal);
    run.set("fresh_blocks", blocks);
    run.set("classes_no_request_selects", classes_without_request);
    run.set("fresh_blocks_with_unused_tail", blocks_with_tail);
    run.set("free_list_cells_walked_and_allocated", cells);
    run.set("real_allocations_on_grid", allocs);
    run.set("real_allocations_filling_cell_exactly", exact);
    run.set("real_allocations_with_worst_case_pad", worst);
    run.set("real_allocations_above_top_class", above_top_allocs);
    run.set(
        "rule",
        format!(
            "(1) every byte size 0..={} through mi_bin_from_size and every request (size multiple of {} in 0..={} = MS_CONSTRAINTS.max_non_los_default_alloc_bytes) x align {:?} through mi_bin::<VerifVM>: bin in 1..={}, cell >= size + (align - {}) (worst-case pad), monotone in size and in align; (2) for each of the {} classes a fresh block acquired by the allocator's slow-path function on a real MarkSweep instance: free list walked (inside block, cell-size apart, disjoint, count = floor({}/cell)) and every cell then allocated through memory_manager::alloc in the walked order; (3) real alloc of every size within {} words of every class boundary (and every size <= {}) x align x offset {{0,{}}}: aligned, inside one cell of the class mi_bin named, no cell twice; non-trivial = requests that fill their class exactly or are the first size of the next class (pure), blocks whose cell size does not divide the block size, real allocations that end exactly at the cell end or needed the full worst-case pad",
            c.limit, MIN_ALIGN, c.admit, aligns(), c.max_bin, MIN_ALIGN, c.max_bin, c.block, run.tier.pick(2, 16), run.tier.pick(512, 16384), MIN_ALIGN
        ),
    );
    run.assume("VerifVM: MIN_ALIGNMENT 8, MAX_ALIGNMENT 64, USE_ALLOCATION_OFFSET true; other bindings have other pads, the pure part depends on (MIN, MAX) only through align - MIN_ALIGNMENT");
    run.assume("fresh blocks only: lists rebuilt by sweeping are covered by the whole-collection properties, not here");
    run.assume("sizes that are not a multiple of MIN_ALIGNMENT are excluded from mi_bin::<VM> (debug-asserted precondition of get_maximum_aligned_size) and covered through mi_bin_from_size");
}

pub fn replay(case: &Value, run: &mut Run) {
    let c = consts();
    let u = |k: &str| case[k].as_u64().unwrap_or(0) as usize;
    let part = case["part"].as_str().unwrap_or("");
    let r: Result<(), (String, String)> = match part {
        "table" => check_table(&c),
        "from_size" => eval_from_size(&c, u("size")).map(|_| ()),
        "from_size_pair" => match (eval_from_size(&c, u("size") - 1), eval_from_size(&c, u("size"))) {
            (Ok(a), Ok(b)) if b < a => Err(("not_monotone:from_size".into(), format!("mi_bin_from_size({}) = {} < mi_bin_from_size({}) = {}", u("size"), b, u("size") - 1, a))),
            (_, Err(e)) | (Err(e), _) => Err(e),
            _ => Ok(()),
        },
        "request" => eval_request(&c, u("size"), u("align")).map(|_| ()),
        "request_pair_size" => match (eval_request(&c, u("size") - MIN_ALIGN, u("align")), eval_request(&c, u("size"), u("align"))) {
            (Ok(a), Ok(b)) if b < a => Err(("not_monotone:request:size".into(), format!("bin {} after bin {}", b, a))),
            (_, Err(e)) | (Err(e), _) => Err(e),
            _ => Ok(()),
        },
        "request_pair_align" => match (eval_request(&c, u("size"), u("align") / 2), eval_request(&c, u("size"), u("align"))) {
            (Ok(a), Ok(b)) if b < a => Err(("not_monotone:request:align".into(), format!("bin {} after bin {}", b, a))),
            (_, Err(e)) | (Err(e), _) => Err(e),
            _ => Ok(()),
        },
        "block" => {
            let mut real = boot();
            check_block(&c, &mut real, u("bin")).map(|_| ())
        }
        "alloc" => {
            let mut real = boot();
            check_alloc(&c, &mut real, u("size"), u("align"), u("offset")).map(|_| ())
        }
        "alloc_reuse" => {
            // needs the allocations before it: re-run the grid up to and including this request
            let mut real = boot();
            let mut used = BTreeSet::new();
            let target = (u("size"), u("align"), u("offset"));
            let mut r = Ok(());
            for (s, a, o) in alloc_grid(&c, u("window_words"), u("all_up_to")) {
                if let Ok(out) = check_alloc(&c, &mut real, s, a, o) {
                    if !used.insert(out.cell) {
                        r = Err(("alloc:cell_reused".to_string(), format!("alloc(size={}, align={}, offset={}) was given cell {:#x} again", s, a, o, out.cell)));
                        break;
                    }
                }
                if (s, a, o) == target {
                    break;
                }
            }
            r
        }
        "above_top_alloc" => {
            let mut real = boot();
            check_above_top_alloc(&c, &mut real, u("size"), u("align"), u("offset"))
        }
        _ => machinery_failure("C35 replay: unknown part"),
    };
    if let Err((sig, msg)) = r {
        run.violation(sig, msg, case.clone());
    }
}
