//! Concurrent neighbours in one metadata byte (used by C20 and C21): two threads operate on two
//! DIFFERENT regions whose sub-byte side-metadata fields share one metadata byte; every
//! interleaving at the hardware atomics is explored with the `baton` engine.  Each operation
//! must still affect exactly its own field: at the end both effects are present, the rest of the
//! byte is untouched, and each value-returning operation returned its own field's initial value
//! (nobody else writes that field).

use super::c20::{field_loc, make_spec, Cfg, SideAccess};
use crate::baton::{self, Arming, Config, ExecInfo, Scenario, Verdict};
use crate::common::Run;
use mmtk::util::metadata::side_metadata::{verif_hooks, SideMetadataSpec};
use mmtk::util::Address;
use serde_json::{json, Value};
use std::sync::atomic::Ordering::SeqCst;
use std::sync::atomic::{AtomicI64, Ordering};

#[derive(Clone, Copy, Debug, PartialEq, Eq)]
pub enum Kind {
    Store,
    FetchOr,
    FetchAnd,
    FetchAdd,
    FetchSub,
    FetchUpdate,
    Cas,
    SetZero,
    Bzero,
    Bset,
}

impl Kind {
    pub fn name(self) -> &'static str {
        match self {
            Kind::Store => "store_atomic",
            Kind::FetchOr => "fetch_or_atomic",
            Kind::FetchAnd => "fetch_and_atomic",
            Kind::FetchAdd => "fetch_add_atomic",
            Kind::FetchSub => "fetch_sub_atomic",
            Kind::FetchUpdate => "fetch_update_atomic",
            Kind::Cas => "compare_exchange_atomic",
            Kind::SetZero => "set_zero_atomic",
            Kind::Bzero => "bzero_metadata",
            Kind::Bset => "bset_metadata",
        }
    }
    pub fn from_name(s: &str) -> Kind {
        for k in [Kind::Store, Kind::FetchOr, Kind::FetchAnd, Kind::FetchAdd, Kind::FetchSub, Kind::FetchUpdate, Kind::Cas, Kind::SetZero, Kind::Bzero, Kind::Bset] {
            if k.name() == s {
                return k;
            }
        }
        crate::common::machinery_failure(&format!("unknown op {}", s))
    }
}

#[derive(Clone, Debug)]
pub struct Params {
    pub log_bits: usize,
    pub a: Kind,
    pub b: Kind,
    /// field index (region index inside the byte) of thread 0 / thread 1
    pub fa: usize,
    pub fb: usize,
    /// initial content of the metadata byte
    pub init: u8,
    pub va: u8,
    pub vb: u8,
}

fn pj(p: &Params) -> Value {
    json!({"log_bits": p.log_bits, "a": p.a.name(), "b": p.b.name(), "fa": p.fa, "fb": p.fb, "init": p.init, "va": p.va, "vb": p.vb})
}

fn pfrom(v: &Value) -> Params {
    let u = |k: &str| v[k].as_u64().unwrap_or(0);
    Params { log_bits: u("log_bits") as usize, a: Kind::from_name(v["a"].as_str().unwrap_or("")), b: Kind::from_name(v["b"].as_str().unwrap_or("")), fa: u("fa") as usize, fb: u("fb") as usize, init: u("init") as u8, va: u("va") as u8, vb: u("vb") as u8 }
}

pub struct Sc {
    p: Params,
    spec: SideMetadataSpec,
    regions: [Address; 2],
    byte: Address,
    ret: [AtomicI64; 2],
}

impl Sc {
    pub fn new(p: Params) -> Sc {
        // maps the metadata of the data window (four consecutive 8-byte regions share a byte)
        let _ = SideAccess::new(Cfg { log_bits: p.log_bits, log_region: 3, background: 0, nfields: 4, inner: false });
        let spec = make_spec(p.log_bits, 3);
        let base = unsafe { Address::from_usize(super::c20::DATA_BASE) };
        let (meta_base, _) = verif_hooks::reserved_range();
        let la = field_loc(meta_base, p.log_bits, 3, base + 8 * p.fa);
        let lb = field_loc(meta_base, p.log_bits, 3, base + 8 * p.fb);
        assert!(la.byte == lb.byte && p.fa != p.fb, "the two fields must share a metadata byte");
        Sc { spec, regions: [base + 8 * p.fa, base + 8 * p.fb], byte: la.byte, ret: [AtomicI64::new(-1), AtomicI64::new(-1)], p }
    }
    fn width(&self) -> u32 {
        1 << self.p.log_bits
    }
    fn mask(&self) -> u8 {
        ((1u16 << self.width()) - 1) as u8
    }
    fn shift(&self, f: usize) -> u32 {
        (f as u32) * self.width()
    }
    fn field(&self, byte: u8, f: usize) -> u8 {
        (byte >> self.shift(f)) & self.mask()
    }
    /// What `kind(v)` makes of a field holding `old`.
    fn effect(&self, kind: Kind, old: u8, v: u8) -> u8 {
        let m = self.mask();
        match kind {
            Kind::Store | Kind::FetchUpdate => v & m,
            Kind::Cas => v & m,
            Kind::FetchOr => (old | v) & m,
            Kind::FetchAnd => old & v & m,
            Kind::FetchAdd => old.wrapping_add(v) & m,
            Kind::FetchSub => old.wrapping_sub(v) & m,
            Kind::SetZero | Kind::Bzero => 0,
            Kind::Bset => m,
        }
    }
    fn apply(&self, t: usize) {
        let (kind, v, f) = if t == 0 { (self.p.a, self.p.va, self.p.fa) } else { (self.p.b, self.p.vb, self.p.fb) };
        let a = self.regions[t];
        let old0 = self.field(self.p.init, f);
        let r: i64 = match kind {
            Kind::Store => {
                self.spec.store_atomic::<u8>(a, v, SeqCst);
                -2
            }
            Kind::FetchOr => self.spec.fetch_or_atomic::<u8>(a, v, SeqCst) as i64,
            Kind::FetchAnd => self.spec.fetch_and_atomic::<u8>(a, v, SeqCst) as i64,
            Kind::FetchAdd => self.spec.fetch_add_atomic::<u8>(a, v, SeqCst) as i64,
            Kind::FetchSub => self.spec.fetch_sub_atomic::<u8>(a, v, SeqCst) as i64,
            Kind::FetchUpdate => match self.spec.fetch_update_atomic::<u8, _>(a, SeqCst, SeqCst, |_| Some(v)) {
                Ok(x) => x as i64,
                Err(x) => 1000 + x as i64,
            },
            Kind::Cas => match self.spec.compare_exchange_atomic::<u8>(a, old0, v, SeqCst, SeqCst) {
                Ok(x) => x as i64,
                // nobody else writes this field, so the exchange must succeed
                Err(x) => 1000 + x as i64,
            },
            Kind::SetZero => {
                self.spec.store_atomic::<u8>(a, 0, SeqCst);
                -2
            }
            Kind::Bzero => {
                self.spec.bzero_metadata(a, 8);
                -2
            }
            Kind::Bset => {
                self.spec.bset_metadata(a, 8);
                -2
            }
        };
        self.ret[t].store(r, Ordering::SeqCst);
    }
    fn read_byte(&self) -> u8 {
        unsafe { std::ptr::read_volatile(self.byte.to_ptr::<u8>()) }
    }
}

impl Scenario for Sc {
    fn name(&self) -> String {
        format!("shared-byte/{}bit/{}@{}+{}@{}/init{:#04x}", self.width(), self.p.a.name(), self.p.fa, self.p.b.name(), self.p.fb, self.p.init)
    }
    fn params(&self) -> Value {
        pj(&self.p)
    }
    fn threads(&self) -> usize {
        2
    }
    fn setup(&self, arming: &mut Arming) {
        unsafe { std::ptr::write_volatile(self.byte.to_mut_ptr::<u8>(), self.p.init) };
        let lo = self.byte.as_usize() & !7;
        arming.range(lo, lo + 8);
        self.ret[0].store(-1, Ordering::SeqCst);
        self.ret[1].store(-1, Ordering::SeqCst);
    }
    fn body(&self, tid: usize) {
        self.apply(tid);
    }
    fn check(&self, info: &ExecInfo) -> Verdict {
        let first = info.schedule().first().copied().unwrap_or(0);
        let last = info.schedule().last().copied().unwrap_or(0);
        let outcome = format!("first={} last={}", first, last);
        let nontrivial = info.preemptions > 0;
        if !matches!(info.end, baton::End::Complete) {
            return Verdict { outcome, violation: Some(("concurrent:not_finished".into(), format!("execution ended with {:?}", info.end))), nontrivial };
        }
        if let Some(Some(p)) = info.panics.iter().find(|p| p.is_some()) {
            return Verdict { outcome, violation: Some(("concurrent:panic".into(), format!("an accessor panicked: {}", p))), nontrivial };
        }
        let fin = self.read_byte();
        let (fa, fb) = (self.p.fa, self.p.fb);
        let ea = self.effect(self.p.a, self.field(self.p.init, fa), self.p.va);
        let eb = self.effect(self.p.b, self.field(self.p.init, fb), self.p.vb);
        let ma = self.mask() << self.shift(fa);
        let mb = self.mask() << self.shift(fb);
        let expect = (self.p.init & !(ma | mb)) | (ea << self.shift(fa)) | (eb << self.shift(fb));
        if fin != expect {
            let who = if self.field(fin, fa) != ea { (self.p.a, fa, ea, self.field(fin, fa)) } else if self.field(fin, fb) != eb { (self.p.b, fb, eb, self.field(fin, fb)) } else { (self.p.a, 9, 0, 0) };
            let sig = format!("concurrent:lost_update:{}+{}", self.p.a.name(), self.p.b.name());
            let msg = if who.1 == 9 {
                format!("{} on field {} and {} on field {} of one {}-bit metadata byte (initially {:#04x}) ran concurrently: a bit outside both fields changed (final byte {:#04x}, expected {:#04x})", self.p.a.name(), fa, self.p.b.name(), fb, self.width(), self.p.init, fin, expect)
            } else {
                format!("{} on field {} and {} on field {} of one metadata byte ({} bits per region, initially {:#04x}) ran concurrently: field {} holds {} at the end, its own operation ({}) makes it {} (final byte {:#04x}, expected {:#04x}): an update was lost or undone", self.p.a.name(), fa, self.p.b.name(), fb, self.width(), self.p.init, who.1, who.3, who.0.name(), who.2, fin, expect)
            };
            return Verdict { outcome, violation: Some((sig, msg)), nontrivial };
        }
        for (t, (kind, f)) in [(self.p.a, fa), (self.p.b, fb)].into_iter().enumerate() {
            let r = self.ret[t].load(Ordering::SeqCst);
            let old = self.field(self.p.init, f) as i64;
            if r >= 0 && r != old {
                return Verdict { outcome, violation: Some((format!("concurrent:return_value:{}", kind.name()), format!("{} on field {} returned {} although only this thread writes the field, which held {}", kind.name(), f, r, old))), nontrivial };
            }
        }
        Verdict { outcome, violation: None, nontrivial }
    }
}

/// Explore all interleavings of every pair (a, b) of the given operation kinds on every pair of
/// distinct fields of one byte, for the widths 1, 2 and 4 bits.
pub fn run_pairs(run: &mut Run, first: &[Kind], second: &[Kind], thorough: bool) {
    let mut n = 0u64;
    for log_bits in 0..=2usize {
        let per_byte = 8 >> log_bits;
        let positions: Vec<(usize, usize)> = if thorough { (0..per_byte.min(4)).flat_map(|a| (0..per_byte.min(4)).filter(move |b| *b != a).map(move |b| (a, b))).collect() } else { vec![(0, 1), (1, 0)] };
        for &(fa, fb) in &positions {
            for &a in first {
                for &b in second {
                    for init in if thorough { vec![0x00u8, 0xff, 0xa5] } else { vec![0x00u8, 0xa5] } {
                        let m = ((1u16 << (1 << log_bits)) - 1) as u8;
                        // values that change the field whatever it held
                        let p = Params { log_bits, a, b, fa, fb, init, va: pick(a, (init >> (fa * (1 << log_bits))) & m, m), vb: pick(b, (init >> (fb * (1 << log_bits))) & m, m) };
                        let sc = Sc::new(p);
                        let cfg = Config { bound: None, max_executions: 200_000, ..Config::default() };
                        let st = baton::explore(&sc, &cfg, run);
                        baton::add_stats(run, &st);
                        n += 1;
                        if n % 97 == 1 {
                            run.sample(json!({"scenario": sc.name(), "executions": st.executions, "all_interleavings": st.unbounded_complete, "outcomes": st.outcomes}));
                        }
                    }
                }
            }
        }
    }
    run.add("concurrent_scenarios", n);
}

/// A value for `kind` that changes a field currently holding `old`.
fn pick(kind: Kind, old: u8, m: u8) -> u8 {
    match kind {
        Kind::Store | Kind::FetchUpdate | Kind::Cas => !old & m,
        Kind::FetchOr => m,
        Kind::FetchAnd => 0,
        Kind::FetchAdd | Kind::FetchSub => 1,
        _ => 0,
    }
}

pub fn replay(case: &Value, run: &mut Run) {
    let sc = Sc::new(pfrom(&case["params"]));
    let (_info, v) = baton::replay_case(&sc, case, 20_000, 64);
    if let Some((sig, msg)) = v.violation {
        run.violation(sig, msg, case.clone());
    }
}

/// SAMPLED, free-running companion of the exhaustive phase (never part of a coverage claim):
/// two real threads without the controlled scheduler.  Thread A repeats `a` on field 0 (with
/// alternating values), thread B toggles field 1 with atomic or/and and verifies after each of
/// its own operations that its field holds what it just wrote (nobody else writes that field).
/// It exists because code that is NOT instrumented with scheduling points (e.g. a freshly
/// written non-atomic load + store sequence) executes atomically under the baton; a lost update
/// observed here is a real violation, its absence proves nothing.
pub fn race_probe(run: &mut Run, kinds: &[Kind], iterations: u64) {
    use std::sync::atomic::AtomicBool;
    for &a in kinds {
        for log_bits in [0usize, 1] {
            let sc = Sc::new(Params { log_bits, a, b: Kind::FetchOr, fa: 0, fb: 1, init: 0, va: 0, vb: 0 });
            unsafe { std::ptr::write_volatile(sc.byte.to_mut_ptr::<u8>(), 0) };
            let stop = AtomicBool::new(false);
            let m = sc.mask();
            let mut lost: Option<(u64, u8, u8)> = None;
            std::thread::scope(|s| {
                s.spawn(|| {
                    let mut i = 0u8;
                    while !stop.load(Ordering::Relaxed) {
                        i = i.wrapping_add(1);
                        match a {
                            Kind::Store => sc.spec.store_atomic::<u8>(sc.regions[0], i & m, SeqCst),
                            Kind::FetchOr => {
                                sc.spec.fetch_or_atomic::<u8>(sc.regions[0], m, SeqCst);
                            }
                            Kind::FetchAnd => {
                                sc.spec.fetch_and_atomic::<u8>(sc.regions[0], 0, SeqCst);
                            }
                            Kind::FetchAdd => {
                                sc.spec.fetch_add_atomic::<u8>(sc.regions[0], 1, SeqCst);
                            }
                            Kind::FetchSub => {
                                sc.spec.fetch_sub_atomic::<u8>(sc.regions[0], 1, SeqCst);
                            }
                            Kind::FetchUpdate => {
                                let _ = sc.spec.fetch_update_atomic::<u8, _>(sc.regions[0], SeqCst, SeqCst, |x| Some(!x & m));
                            }
                            Kind::Bzero => sc.spec.bzero_metadata(sc.regions[0], 8),
                            Kind::Bset => sc.spec.bset_metadata(sc.regions[0], 8),
                            _ => {}
                        }
                    }
                });
                for it in 0..iterations {
                    sc.spec.fetch_or_atomic::<u8>(sc.regions[1], m, SeqCst);
                    let v = sc.spec.load_atomic::<u8>(sc.regions[1], SeqCst);
                    if v != m {
                        lost = Some((it, m, v));
                        break;
                    }
                    sc.spec.fetch_and_atomic::<u8>(sc.regions[1], 0, SeqCst);
                    let v = sc.spec.load_atomic::<u8>(sc.regions[1], SeqCst);
                    if v != 0 {
                        lost = Some((it, 0, v));
                        break;
                    }
                }
                stop.store(true, Ordering::Relaxed);
            });
            run.add("sampled_race_probe_iterations", iterations);
            if let Some((it, want, got)) = lost {
                run.violation(
                    format!("sampled:lost_update:{}", a.name()),
                    format!("free-running probe ({} bit(s) per region): while another thread repeated {} on the neighbouring field of the same metadata byte, this thread wrote {} into its own field (atomic or/and) and read back {} (iteration {}): the neighbour's operation is not confined to its field", 1 << log_bits, a.name(), want, got, it),
                    json!({"engine": "race_probe", "a": a.name(), "log_bits": log_bits, "iterations": iterations}),
                );
            }
        }
    }
}

pub fn replay_probe(case: &Value, run: &mut Run) {
    let a = Kind::from_name(case["a"].as_str().unwrap_or(""));
    race_probe(run, &[a], case["iterations"].as_u64().unwrap_or(200_000) * 5);
}
