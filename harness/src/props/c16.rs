//! C16 — worker shutdown / fork round-trips every worker exactly once (engine `baton`, persistent
//! mode, real `MMTK<VerifVM>`; infrastructure in `props/sched.rs`).
//!
//! Execution: a collection, then `prepare_to_fork()` — in the racing variant the moment
//! `block_for_gc` returns, i.e. while the last worker is still in the tail of `on_gc_finished` —
//! then the mutator waits until no thread can run, joins the worker threads, checks the scheduler
//! state, calls `after_fork()` (new OS threads for the same ordinals) and requests another
//! collection; the thorough tier repeats the round trip twice in one execution.
//!
//! Oracle (signatures ending in `:fork`): every worker thread returns from `start_worker` exactly
//! once per round trip, every `GCWorker` is surrendered exactly once and respawned exactly once with
//! its ordinal, `on_all_workers_exited` runs after all of them, no worker exits while parked or
//! running a packet, the monitor shows no goal / no request / zero parked workers after the stop,
//! all of C14's and C15's clauses hold for the collections before and after (nothing lost, the
//! following collection completes, final quiescent state).
//!
//! Scenario `forkreq` (signatures `fork:<clause>:forkreq`): a second thread makes a forced collection
//! request while the controller calls `prepare_to_fork()`, both starting at quiescence; every
//! interleaving within the bound, so the fork request arrives before / while / after the GC goal
//! is current and the GC request before / while / after StopForFork is current; all workers must
//! exit, the round trip completes, the request is served before or after it (C14's clause), a
//! further collection works.

use crate::common::{Run, Tier};
use crate::props::sched::{ChildCfg, Job, Kind, Pattern, Plan};
use crate::props::{c14, sched};
use serde_json::Value;

pub fn owns(sig: &str) -> bool {
    (sig.ends_with(":fork") && (sig.starts_with("fork:") || sig.starts_with("sched:") || sig.starts_with("stage:"))) || (sig.ends_with(":forkreq") && sig.starts_with("fork:"))
}

/// Scenario `forkreq` (a collection request and `prepare_to_fork` in flight together; see
/// `sched::Kind::Forkreq`): C16 owns the `fork:` verdicts of these children, C14 the `sched:` ones;
/// both checks run them.  Measured (SemiSpace, 2 workers): 192 executions at <= 1 preemption without
/// free deviations, 4 759 with <= 1 free deviation.
pub fn forkreq_plans(tier: Tier) -> Vec<Plan> {
    let thorough = tier == Tier::Thorough;
    let names: Vec<&str> = if thorough { vec!["SemiSpace", "MarkSweep", "Immix", "GenCopy"] } else { vec!["SemiSpace"] };
    let mut out = vec![];
    for (pi, plan) in names.iter().enumerate() {
        let worker_counts: Vec<usize> = if thorough && pi < 2 { vec![2, 3] } else { vec![2] };
        for workers in worker_counts {
            let cfg = ChildCfg { plan: plan.to_string(), workers, eph_chain: 1, refs: false, options: vec![], mutators: 1, bare: false };
            let job = |bound: u32, free_bound: u32| Job { kind: Kind::Forkreq, pattern: Pattern::empty(), via_worker: false, bound, free_bound, spurious: 0, prog: vec![] };
            if !thorough {
                out.push(Plan { cfg: cfg.clone(), jobs: vec![job(1, 0)] });
            } else {
                out.push(Plan { cfg: cfg.clone(), jobs: vec![job(1, 1)] });
                if pi < 2 && workers == 2 {
                    out.push(Plan { cfg: cfg.clone(), jobs: vec![job(2, 0)] });
                }
            }
        }
    }
    out
}

pub fn run(run: &mut Run) {
    let mut plans = c14::plans(run.tier, true);
    plans.extend(forkreq_plans(run.tier));
    run.set("child_processes", plans.len() as u64);
    sched::run_parent(run, plans, &owns, run.tier.pick(300, 3000));
    c14::finish(run);
}

pub fn replay(case: &Value, run: &mut Run) {
    sched::replay("C16", case, run);
}

pub fn child(args: &[String]) {
    sched::child("C16", args);
}
