//! C16 — worker shutdown / fork round-trips every worker exactly once (engine `baton`, persistent
//! mode, real `MMTK<VerifVM>`; infrastructure in `props/sched.rs`).
//!
//! Execution: a collection, then `prepare_to_fork()` — in the racing variant the moment
//! `block_for_gc` returns, i.e. while the last worker is still in the tail of `on_gc_finished` —
//! then the mutator waits until no thread can run, joins the worker threads, checks the scheduler
//! state, calls `after_fork()` (new OS threads for the same ordinals) and requests another
//! collection; the thorough tier repeats the round trip twice in one execution.
//!
//! Oracle (signatures ending in `:fork`): every worker thread returns from `start_worker` exactly
//! once per round trip, every `GCWorker` is surrendered exactly once and respawned exactly once with
//! its ordinal, `on_all_workers_exited` runs after all of them, no worker exits while parked or
//! running a packet, the monitor shows no goal / no request / zero parked workers after the stop,
//! all of C14's and C15's clauses hold for the collections before and after (nothing lost, the
//! following collection completes, final quiescent state).

use crate::common::Run;
use crate::props::{c14, sched};
use serde_json::Value;

pub fn owns(sig: &str) -> bool {
    sig.ends_with(":fork") && (sig.starts_with("fork:") || sig.starts_with("sched:") || sig.starts_with("stage:"))
}

pub fn run(run: &mut Run) {
    let plans = c14::plans(run.tier, true);
    run.set("child_processes", plans.len() as u64);
    sched::run_parent(run, plans, &owns, run.tier.pick(300, 3000));
    c14::finish(run);
}

pub fn replay(case: &Value, run: &mut Run) {
    sched::replay("C16", case, run);
}

pub fn child(args: &[String]) {
    sched::child("C16", args);
}
