//! C06 — soft / weak / phantom references and finalizers follow their semantics.
//!
//! Engine `shadowvm`: every mutator program up to a depth over {alloc, alloc-reference(kind,
//! referent root), add-finalizer, drop, write, GC(normal), GC(exhaustive), pop-finalized,
//! emergency collection} is run on a real MMTK instance per collecting plan.  The harness keeps a
//! *model* of what MMTk has been told (registered reference candidates per kind with their
//! referent, outstanding finalizer registrations) next to the shadow heap, and after every
//! collection (hook `PRE_VERIFY_HOOK`, run before the C01 graph walk):
//!
//!  * computes from the shadow heap the sets R0 (strongly reachable from the roots), R1 (R0 +
//!    what soft references retain; = R0 in an emergency collection) and R2 (R1 + what the
//!    finalizable objects that became ready keep alive);
//!  * locates every object MMTk must have kept: walks the real heap from the real root slots,
//!    from the entries of the finalizable processor's tables (read through the `verif` hook
//!    `finalizable_tables`: a non-destructive `get_all_finalizers`) and through the referent
//!    words of the reference objects it meets;
//!  * compares, per registered reference, what happened to its referent word (kept / cleared)
//!    and what was reported to `ReferenceGlue::enqueue_references` with what the documented
//!    semantics allow (safety, every collection) and require (liveness, only collections that
//!    traced the whole heap stop-the-world);
//!  * declares the referent words of live reference objects and the table entries as additional
//!    real roots (`EXTRA_REAL_ROOTS`) so that the generic graph walk verifies that referents were
//!    forwarded to the referent's new address and that everything kept for finalization is intact.
//!
//! `get_finalized_object` results are compared with the model when the program pops, and always
//! after the closing exhaustive collection of every program (drain).
//!
//! Semantics checked (as implemented and documented in reference_processor.rs,
//! finalizable_processor.rs, the `WorkBucketStage` order Soft < Weak < FinalRef < Phantom, and the
//! `ReferenceGlue` / `memory_manager` docs); see `rule()` and NOTES.md for the readings.

use crate::common::{catch, emit_child_result, machinery_failure, run_children, Run, Tier};
use crate::shadow_check::panic_slug;
use crate::shadowvm::{install_crash_handlers, set_current_case, worker_panic_to_crash, BootCfg, Fail, Sem, World, COLLECTING_PLANS, EXTRA_REAL_ROOTS, EXTRA_ROOTS, PRE_VERIFY_HOOK};
use crate::vm::*;
use mmtk::util::{Address, ObjectReference};
use mmtk::vm::ReferenceGlue;
use serde_json::{json, Value};
use std::cell::RefCell;
use std::collections::{BTreeMap, HashMap, HashSet};
use std::hash::{Hash, Hasher};

const ID: &str = "C06";
const SLOTS: usize = 3;
const NULL: u8 = 0xff;
/// root slot that receives the first object returned by a `Pop` (not addressable by other ops)
const RESURRECT_SLOT: usize = SLOTS;
const PLAIN_SIZE: usize = 48;
const REF_SIZE: usize = 56;
const FIN_BUF: usize = 256;

// ---------------------------------------------------------------------------------------------
// alphabet

#[derive(Clone, Copy, Debug, PartialEq, Eq, Hash, PartialOrd, Ord)]
pub enum Kind {
    Soft,
    Weak,
    Phantom,
}

impl Kind {
    const ALL: [Kind; 3] = [Kind::Soft, Kind::Weak, Kind::Phantom];
    fn name(self) -> &'static str {
        match self {
            Kind::Soft => "soft",
            Kind::Weak => "weak",
            Kind::Phantom => "phantom",
        }
    }
    fn from_name(s: &str) -> Kind {
        match s {
            "soft" => Kind::Soft,
            "phantom" => Kind::Phantom,
            _ => Kind::Weak,
        }
    }
}

#[derive(Clone, Copy, Debug, PartialEq, Eq, Hash)]
pub enum Op {
    /// plain object (two reference fields) into the lowest empty root slot
    Alloc,
    /// reference object of `kind` into the lowest empty root slot; referent = roots[referent];
    /// the referent is set first, then the object is registered as a candidate
    AllocRef { kind: Kind, referent: u8 },
    /// register roots[slot] with `add_finalizer` (an object may be registered more than once)
    AddFin { slot: u8 },
    Drop { slot: u8 },
    /// roots[src].f0 <- roots[dst] | null, through the plan's barrier
    Write { src: u8, dst: u8 },
    Gc { full: bool },
    /// `get_finalized_object` until None; the first object returned is stored into a dedicated
    /// fourth root slot (resurrection; overwrites an earlier one), the others are dropped
    Pop,
    /// an allocation request of the whole heap size (Los): cannot be satisfied, so MMTk collects
    /// until the collection is an emergency collection and then reports out-of-memory
    Emergency,
    /// `get_finalizers_for(roots[slot])`: must return exactly the outstanding registrations of
    /// that object (each once) and un-register them
    GetFinFor { slot: u8 },
    /// `get_all_finalizers()`: must return every outstanding registration (ready or not) and
    /// leave the tables empty; the first returned object that no root holds is re-rooted
    GetAllFin,
}

impl Op {
    fn json(&self) -> Value {
        match *self {
            Op::Alloc => json!({"op": "alloc"}),
            Op::AllocRef { kind, referent } => json!({"op": "allocref", "kind": kind.name(), "referent": referent}),
            Op::AddFin { slot } => json!({"op": "addfin", "slot": slot}),
            Op::Drop { slot } => json!({"op": "drop", "slot": slot}),
            Op::Write { src, dst } => json!({"op": "write", "src": src, "dst": if dst == NULL { Value::Null } else { json!(dst) }}),
            Op::Gc { full } => json!({"op": "gc", "full": full}),
            Op::Pop => json!({"op": "pop"}),
            Op::Emergency => json!({"op": "emergency"}),
            Op::GetFinFor { slot } => json!({"op": "getfinalizersfor", "slot": slot}),
            Op::GetAllFin => json!({"op": "getallfinalizers"}),
        }
    }
    fn from_json(v: &Value) -> Op {
        let u = |k: &str| v[k].as_u64().unwrap_or(0) as u8;
        match v["op"].as_str().unwrap_or("") {
            "alloc" => Op::Alloc,
            "allocref" => Op::AllocRef { kind: Kind::from_name(v["kind"].as_str().unwrap_or("weak")), referent: u("referent") },
            "addfin" => Op::AddFin { slot: u("slot") },
            "drop" => Op::Drop { slot: u("slot") },
            "write" => Op::Write { src: u("src"), dst: if v["dst"].is_null() { NULL } else { u("dst") } },
            "gc" => Op::Gc { full: v["full"].as_bool().unwrap_or(true) },
            "pop" => Op::Pop,
            "emergency" => Op::Emergency,
            "getfinalizersfor" => Op::GetFinFor { slot: u("slot") },
            "getallfinalizers" => Op::GetAllFin,
            other => machinery_failure(&format!("unknown op {}", other)),
        }
    }
}

fn prog_json(p: &[Op]) -> Value {
    Value::Array(p.iter().map(|o| o.json()).collect())
}

fn prog_from_json(v: &Value) -> Vec<Op> {
    v.as_array().map(|a| a.iter().map(Op::from_json).collect()).unwrap_or_default()
}

fn is_gen(plan: &str) -> bool {
    matches!(plan, "GenCopy" | "GenImmix" | "StickyImmix")
}

fn is_immix_family(plan: &str) -> bool {
    matches!(plan, "Immix" | "GenImmix" | "StickyImmix" | "ConcurrentImmix")
}

/// Abstract pre-state deciding which operations are offered.
#[derive(Clone, Copy, Default)]
struct Abs {
    occ: [bool; SLOTS],
    fins: bool,
    softs: bool,
}

impl Abs {
    fn enabled(&self, plan: &str) -> Vec<Op> {
        let mut v = vec![];
        let free = self.occ.iter().any(|o| !o);
        if free {
            v.push(Op::Alloc);
            for kind in Kind::ALL {
                for r in 0..SLOTS as u8 {
                    if self.occ[r as usize] {
                        v.push(Op::AllocRef { kind, referent: r });
                    }
                }
            }
        }
        for s in 0..SLOTS as u8 {
            if self.occ[s as usize] {
                v.push(Op::AddFin { slot: s });
            }
        }
        for s in 0..SLOTS as u8 {
            if self.occ[s as usize] {
                v.push(Op::Drop { slot: s });
            }
        }
        for src in 0..SLOTS as u8 {
            if !self.occ[src as usize] {
                continue;
            }
            v.push(Op::Write { src, dst: NULL });
            for dst in 0..SLOTS as u8 {
                if self.occ[dst as usize] {
                    v.push(Op::Write { src, dst });
                }
            }
        }
        // `exhaustive` only matters to generational plans (force_full_heap_collection)
        if is_gen(plan) {
            v.push(Op::Gc { full: false });
        }
        v.push(Op::Gc { full: true });
        if self.fins {
            v.push(Op::Pop);
        }
        // allocation-triggered collections start a concurrent cycle under ConcurrentImmix
        if self.softs && plan != "ConcurrentImmix" {
            v.push(Op::Emergency);
        }
        v
    }
    fn apply(&mut self, op: &Op) {
        match *op {
            Op::Alloc => {
                let s = self.occ.iter().position(|o| !o).unwrap();
                self.occ[s] = true;
            }
            Op::AllocRef { kind, .. } => {
                let s = self.occ.iter().position(|o| !o).unwrap();
                self.occ[s] = true;
                if kind == Kind::Soft {
                    self.softs = true;
                }
            }
            Op::AddFin { .. } => self.fins = true,
            Op::Drop { slot } => self.occ[slot as usize] = false,
            Op::Write { .. } | Op::Gc { .. } | Op::Pop | Op::Emergency | Op::GetFinFor { .. } | Op::GetAllFin => {}
        }
    }
}

/// All programs of length 1..=depth, shortest first; programs without a reference object or a
/// finalizer registration are not C06's business; a program ending in an exhaustive GC equals
/// its prefix (every program is followed by a closing exhaustive GC and a drain).
fn enumerate(plan: &str, depth: usize) -> Vec<Vec<Op>> {
    let mut out = vec![];
    let mut level: Vec<(Vec<Op>, Abs)> = vec![(vec![], Abs::default())];
    for _ in 0..depth {
        let mut next = vec![];
        for (p, abs) in &level {
            for op in abs.enabled(plan) {
                let mut p2 = p.clone();
                p2.push(op);
                let mut a2 = *abs;
                a2.apply(&op);
                next.push((p2, a2));
            }
        }
        for (p, _) in &next {
            if matches!(p.last(), Some(Op::Gc { full: true })) {
                continue;
            }
            if p.iter().any(|o| matches!(o, Op::AllocRef { .. } | Op::AddFin { .. })) {
                out.push(p.clone());
            }
        }
        level = next;
    }
    // one level deeper, only the programs in which a finalizer registration meets a collection
    // that is followed by a pop or by another collection (un-popped ready objects crossing a
    // collection, pops that return something, resurrection)
    for (p, abs) in &level {
        for op in abs.enabled(plan) {
            if matches!(op, Op::Gc { full: true }) || !matches!(op, Op::Pop | Op::Gc { .. } | Op::Emergency) {
                continue;
            }
            let collected = p.iter().any(|o| matches!(o, Op::Gc { .. } | Op::Emergency));
            let fin_before = p.iter().position(|o| matches!(o, Op::AddFin { .. })).map(|i| p[i..].iter().any(|o| matches!(o, Op::Gc { .. } | Op::Emergency))).unwrap_or(false);
            if collected && fin_before {
                let mut p2 = p.clone();
                p2.push(op);
                out.push(p2);
            }
        }
    }
    out
}

/// Abstract pre-state of the `fintable` variant (finalizer-table management: no reference
/// objects, no writes; `slots` root slots).
#[derive(Clone, Copy, Default)]
struct FtAbs {
    occ: [bool; SLOTS],
    /// outstanding registrations of the object in each slot
    regs: [u8; SLOTS],
    /// outstanding registrations of dropped objects
    lost: u8,
    /// a collection happened while `lost > 0` (a pop may return something)
    pop_ok: bool,
}

impl FtAbs {
    fn enabled(&self, plan: &str, slots: usize) -> Vec<Op> {
        let mut v = vec![];
        if self.occ[..slots].iter().any(|o| !o) {
            v.push(Op::Alloc);
        }
        for s in 0..slots {
            if self.occ[s] && self.regs[s] < 2 {
                v.push(Op::AddFin { slot: s as u8 });
            }
        }
        for s in 0..slots {
            if self.occ[s] {
                v.push(Op::Drop { slot: s as u8 });
            }
        }
        if is_gen(plan) {
            v.push(Op::Gc { full: false });
        }
        v.push(Op::Gc { full: true });
        for s in 0..slots {
            if self.occ[s] && self.regs[s] > 0 {
                v.push(Op::GetFinFor { slot: s as u8 });
            }
        }
        if self.regs.iter().map(|r| *r as u32).sum::<u32>() + self.lost as u32 > 0 {
            v.push(Op::GetAllFin);
        }
        if self.lost > 0 && self.pop_ok {
            v.push(Op::Pop);
        }
        v
    }
    fn apply(&mut self, op: &Op, slots: usize) {
        match *op {
            Op::Alloc => {
                let s = self.occ[..slots].iter().position(|o| !o).unwrap();
                self.occ[s] = true;
                self.regs[s] = 0;
            }
            Op::AddFin { slot } => self.regs[slot as usize] += 1,
            Op::Drop { slot } => {
                self.lost += self.regs[slot as usize];
                self.regs[slot as usize] = 0;
                self.occ[slot as usize] = false;
            }
            Op::Gc { .. } => self.pop_ok = self.lost > 0,
            Op::GetFinFor { slot } => self.regs[slot as usize] = 0,
            Op::GetAllFin => {
                self.regs = [0; SLOTS];
                self.lost = 0;
                self.pop_ok = false;
            }
            Op::Pop => {
                self.lost = 0;
                self.pop_ok = false;
            }
            _ => {}
        }
    }
}

/// `fintable` variant: all programs of length 1..=depth over {alloc, addfin (at most 2 per
/// object), drop, GC(normal) [generational], GC(exhaustive), get_finalizers_for(root with a
/// registration), get_all_finalizers (some registration outstanding), pop (after a collection
/// with a registration of a dropped object outstanding)} that contain a get_finalizers_for or a
/// get_all_finalizers and do not end in an exhaustive GC.
fn enumerate_fintable(plan: &str, depth: usize, slots: usize) -> Vec<Vec<Op>> {
    let mut out = vec![];
    let mut level: Vec<(Vec<Op>, FtAbs)> = vec![(vec![], FtAbs::default())];
    for _ in 0..depth {
        let mut next = vec![];
        for (p, abs) in &level {
            for op in abs.enabled(plan, slots) {
                let mut p2 = p.clone();
                p2.push(op);
                let mut a2 = *abs;
                a2.apply(&op, slots);
                next.push((p2, a2));
            }
        }
        for (p, _) in &next {
            if matches!(p.last(), Some(Op::Gc { full: true })) {
                continue;
            }
            if p.iter().any(|o| matches!(o, Op::GetFinFor { .. } | Op::GetAllFin)) {
                out.push(p.clone());
            }
        }
        level = next;
    }
    out
}

fn is_fintable(variant: &str) -> bool {
    variant.starts_with("fintable")
}

fn programs(plan: &str, variant: &str, tier: Tier, depth: usize) -> Vec<Vec<Op>> {
    if is_fintable(variant) {
        enumerate_fintable(plan, depth, tier.pick(2, 3))
    } else {
        enumerate(plan, depth)
    }
}

// ---------------------------------------------------------------------------------------------
// model

#[derive(Clone, Debug)]
struct RefReg {
    id: u64,
    kind: Kind,
    /// last known address of the reference object
    addr: usize,
    /// unreachable in the shadow heap but possibly still in MMTk's table (a collection that did
    /// not trace the whole heap keeps mature garbage)
    floating: bool,
}

#[derive(Clone, Debug)]
struct FinReg {
    id: u64,
    ready: bool,
    /// the registration has been through a collection (it lies below the finalizable
    /// processor's `nursery_index` unless a removal reset the index)
    scanned: bool,
}

#[derive(Clone, Copy, Debug, PartialEq, Eq)]
enum Pending {
    None,
    Gc { full: bool },
    Emergency,
}

#[derive(Clone, Copy, Debug, PartialEq, Eq)]
enum Mode {
    /// one user-requested stop-the-world collection of the whole heap, not an emergency
    ExactNormal,
    /// a batch of allocation-triggered collections ending in an emergency (whole heap) collection
    ExactEmergency,
    /// anything else (nursery collection, unexpected batch): safety direction only
    Inexact,
}

#[derive(Clone, Copy, Debug, PartialEq, Eq)]
enum Outcome {
    Keep,
    ClearEnqueue,
    /// the reference object itself was not reachable when its table was scanned: MMTk drops it
    /// ("we're done with it"); never enqueued
    Silent,
}

#[derive(Default, Clone, Debug)]
struct Facts {
    cleared: u64,
    became_ready: u64,
    moved: u64,
    soft_retained: u64,
    emergency_cleared: u64,
    weak_cleared_before_final: u64,
    phantom_kept_by_final: u64,
    popped: u64,
    resurrected: u64,
    exact_gcs: u64,
    inexact_gcs: u64,
    emergency_batches: u64,
    enqueue_events: u64,
    /// get_finalizers_for / get_all_finalizers calls, registrations they returned
    removal_calls: u64,
    removed: u64,
    /// a removal took a registration that had been through a collection while a registration
    /// made since that collection stayed in the table (entries shift below `nursery_index`) ...
    removal_hazards: u64,
    /// ... and the next collection was a (user-requested, single) GC(normal) of a generational plan
    hazard_then_nursery_gc: u64,
    /// young unreachable finalizable objects that a GC(normal) had to make ready (and did)
    young_ready_in_normal_gc: u64,
    /// a soft reference was reachable only through another soft reference's referent
    order_dependent: bool,
    /// tolerated (see NOTES): a soft/weak reference object reachable only through a finalizable
    /// object was dropped from its table and cleared, not enqueued, although its referent is
    /// strongly (or softly) reachable; the reference object itself survives (resurrected)
    resurrected_ref_cleared_reachable_referent: u64,
}

struct Model {
    plan: String,
    refs: Vec<RefReg>,
    fins: Vec<FinReg>,
    pending: Pending,
    /// reference objects whose referent word is no longer tracked (dropped from MMTk's table
    /// while their referent word may legitimately be anything)
    untracked: HashSet<u64>,
    /// objects that are alive only because of a finalizer registration ("final") or a referent
    /// word ("ref") after the last collection: failures of the graph walk on them are C06's
    aux: HashMap<u64, &'static str>,
    fin_buf: *mut [usize; FIN_BUF],
    /// see `Facts::removal_hazards`: set by a removal, consumed by the next collection
    hazard_pending: bool,
    facts: Facts,
    total: Facts,
}

thread_local! {
    static MODEL: RefCell<Option<Model>> = const { RefCell::new(None) };
}

fn fail<T>(sig: &str, msg: String) -> Result<T, Fail> {
    Err((sig.to_string(), msg))
}

fn closure(w: &World, seeds: impl IntoIterator<Item = u64>) -> HashSet<u64> {
    let mut seen = HashSet::new();
    let mut stack: Vec<u64> = seeds.into_iter().collect();
    while let Some(id) = stack.pop() {
        if !seen.insert(id) {
            continue;
        }
        if let Some(o) = w.shadow.objs.get(&id) {
            stack.extend(o.fields.iter().flatten());
        }
    }
    seen
}

fn strong_roots(w: &World) -> Vec<u64> {
    let mut v = vec![];
    for r in w.shadow.roots.iter().flatten() {
        v.extend(r.iter().flatten());
    }
    v.extend(w.shadow.globals.iter().flatten());
    v
}

fn enqueue_batches(events: &[VmEvent]) -> Vec<Vec<usize>> {
    // one Vec of addresses per collection of the batch
    let (gcs, _) = crate::monitors::split_collections(events);
    gcs.iter()
        .map(|gc| {
            let mut v = vec![];
            for e in gc {
                if let VmEvent::EnqueueReferences(a) = e {
                    v.extend(a.iter().cloned());
                }
            }
            v
        })
        .collect()
}

impl Model {
    fn new(plan: &str) -> Model {
        Model {
            plan: plan.to_string(),
            refs: vec![],
            fins: vec![],
            pending: Pending::None,
            untracked: HashSet::new(),
            aux: HashMap::new(),
            fin_buf: Box::into_raw(Box::new([0usize; FIN_BUF])),
            hazard_pending: false,
            facts: Facts::default(),
            total: Facts::default(),
        }
    }

    fn referent_of(&self, w: &World, id: u64) -> Option<u64> {
        if self.untracked.contains(&id) {
            return None;
        }
        w.shadow.objs.get(&id).and_then(|o| if o.is_ref { o.referent } else { None })
    }

    /// The post-collection hook: see the module documentation.
    fn on_gc(&mut self, w: &mut World, n: u64, events: &[VmEvent]) -> Result<(), Fail> {
        let pending = std::mem::replace(&mut self.pending, Pending::None);
        let emergency_now = w.mmtk.is_emergency_collection();
        let gen = is_gen(&self.plan);
        let mut mode = match pending {
            Pending::Gc { full } if n == 1 && !emergency_now => {
                if !gen || full {
                    Mode::ExactNormal
                } else {
                    Mode::Inexact
                }
            }
            Pending::Emergency if emergency_now && n >= 2 => Mode::ExactEmergency,
            _ => Mode::Inexact,
        };
        // soft references retain their referents unless the collection is an emergency collection
        let retention = !emergency_now && n == 1;

        // ---- sets over the shadow heap as it was when the collection started
        let r0 = closure(w, strong_roots(w));
        let soft_regs: Vec<(u64, u64)> = self.refs.iter().filter(|r| r.kind == Kind::Soft && !r.floating).filter_map(|r| self.referent_of(w, r.id).map(|t| (r.id, t))).collect();
        let r1min = if mode == Mode::ExactEmergency || !retention { r0.clone() } else { closure(w, r0.iter().cloned().chain(soft_regs.iter().filter(|(s, _)| r0.contains(s)).map(|(_, t)| *t))) };
        let r1max_all = {
            // soft references discovered only through retained referents: whether *their*
            // referents are retained depends on the table iteration order -> not decided here.
            // (Checked for every collection in which some non-emergency collection retains: a
            // batch starts with one.)
            let with_retention = closure(w, r0.iter().cloned().chain(soft_regs.iter().filter(|(s, _)| r0.contains(s)).map(|(_, t)| *t)));
            let mut r1max = with_retention.clone();
            loop {
                let add: Vec<u64> = soft_regs.iter().filter(|(s, t)| r1max.contains(s) && !r1max.contains(t)).map(|(_, t)| *t).collect();
                if add.is_empty() {
                    break;
                }
                r1max = closure(w, r1max.iter().cloned().chain(add));
            }
            if r1max != with_retention {
                if mode == Mode::ExactNormal {
                    mode = Mode::Inexact;
                }
                // MMTk's table is a HashSet with a per-process random hasher: what happens to
                // such a chain differs from run to run; the program is judged (both outcomes are
                // allowed) but kept out of the coverage counters so that they stay reproducible
                self.facts.order_dependent = true;
            }
            r1max
        };
        let exact = mode != Mode::Inexact;
        let r1 = &r1min;
        let fin_ready_pred: Vec<bool> = self.fins.iter().map(|f| !r1.contains(&f.id)).collect();
        let r2 = closure(w, r1.iter().cloned().chain(self.fins.iter().filter(|f| !r1.contains(&f.id)).map(|f| f.id)));

        // ---- prediction per registered reference (exact modes)
        let mut pred: HashMap<u64, Outcome> = HashMap::new();
        if exact {
            for r in &self.refs {
                let Some(t) = self.referent_of(w, r.id) else { continue };
                let o = if r.floating {
                    Outcome::Silent
                } else {
                    match r.kind {
                        Kind::Soft if mode == Mode::ExactNormal && r0.contains(&r.id) => Outcome::Keep,
                        Kind::Soft | Kind::Weak => {
                            if !r1.contains(&r.id) {
                                Outcome::Silent
                            } else if r1.contains(&t) {
                                Outcome::Keep
                            } else {
                                Outcome::ClearEnqueue
                            }
                        }
                        Kind::Phantom => {
                            if !r2.contains(&r.id) {
                                Outcome::Silent
                            } else if r2.contains(&t) {
                                Outcome::Keep
                            } else {
                                Outcome::ClearEnqueue
                            }
                        }
                    }
                };
                pred.insert(r.id, o);
            }
        }

        // ---- the finalizable processor's tables
        let (cands, ready) = mmtk::util::verif::c06::finalizable_tables(w.mmtk);
        let mut entries: Vec<(usize, u64, bool)> = vec![]; // (address, id, ready)
        {
            let mut outstanding: BTreeMap<u64, i64> = BTreeMap::new();
            for f in &self.fins {
                *outstanding.entry(f.id).or_insert(0) += 1;
            }
            for (list, is_ready) in [(&cands, false), (&ready, true)] {
                for o in list.iter() {
                    let a = o.to_raw_address();
                    let which = if is_ready { "ready_for_finalize" } else { "candidates" };
                    if !mmtk::memory_manager::is_mapped_address(a) {
                        return fail("final:table_entry_invalid", format!("after the collection the finalizable processor's `{}` table holds {}, which is not mapped memory", which, a));
                    }
                    let id = obj_id(*o);
                    match outstanding.get_mut(&id) {
                        Some(c) if *c > 0 && w.shadow.objs.contains_key(&id) => *c -= 1,
                        _ => {
                            return fail(
                                "final:table_entry_invalid",
                                format!("after the collection the finalizable processor's `{}` table holds {} whose id word is {}: not an outstanding finalizer registration (outstanding: {:?})", which, a, id, self.fins.iter().map(|f| f.id).collect::<Vec<_>>()),
                            )
                        }
                    }
                    entries.push((a.as_usize(), id, is_ready));
                }
            }
            if let Some((id, c)) = outstanding.iter().find(|(_, c)| **c != 0) {
                return fail("final:registration_lost", format!("{} registration(s) of object id {} are in neither table of the finalizable processor after the collection although they were never returned by get_finalized_object", c, id));
            }
        }
        if entries.len() > FIN_BUF {
            machinery_failure("C06: finalizable table larger than the harness buffer");
        }

        // ---- locate: lenient walk of the real heap (the strict one is verify_heap's), in three
        // phases so that a slot that was not forwarded is blamed, not the ones that were:
        // (A) from the root slots along reference fields, (B) through the referent words of the
        // reference objects found, (C) from the finalizable tables (then (B) again)
        let mut loc: HashMap<u64, usize> = HashMap::new();
        // reference object id -> (referent slot address, value found)
        let mut obs: HashMap<u64, (usize, usize)> = HashMap::new();
        let mut ref_queue: Vec<u64> = vec![];
        // walk along reference fields from (val, id); objects found are added to `loc`,
        // reference objects among them to `ref_queue`
        fn walk(w: &World, loc: &mut HashMap<u64, usize>, ref_queue: &mut Vec<u64>, val: usize, id: u64) {
            let mut work = vec![(val, id)];
            while let Some((val, id)) = work.pop() {
                if loc.contains_key(&id) || val == 0 || val % 8 != 0 {
                    continue;
                }
                let a = unsafe { Address::from_usize(val) };
                if !mmtk::memory_manager::is_mapped_address(a) {
                    continue;
                }
                let o = ObjectReference::from_raw_address(a).unwrap();
                let Some(so) = w.shadow.objs.get(&id) else { continue };
                if obj_id(o) != id || obj_nrefs(o) != so.fields.len() || obj_size(o) != so.size {
                    continue;
                }
                loc.insert(id, val);
                if so.is_ref {
                    ref_queue.push(id);
                }
                for (i, f) in so.fields.iter().enumerate().rev() {
                    if let Some(t) = f {
                        work.push((read_word(field_addr(o, i)), *t));
                    }
                }
            }
        }
        // (A)
        for (m, r) in w.shadow.roots.iter().enumerate() {
            if let Some(r) = r {
                for (i, e) in r.iter().enumerate() {
                    if let (Some(id), Some(o)) = (e, w.root_obj(m, i)) {
                        walk(w, &mut loc, &mut ref_queue, o.to_raw_address().as_usize(), *id);
                    }
                }
            }
        }
        let strong_ok = r0.iter().all(|id| loc.contains_key(id));
        // (B), (C)
        let mut next_entry = 0;
        while strong_ok {
            if let Some(id) = ref_queue.pop() {
                if self.untracked.contains(&id) || obs.contains_key(&id) {
                    continue;
                }
                let so = &w.shadow.objs[&id];
                let o = ObjectReference::from_raw_address(unsafe { Address::from_usize(loc[&id]) }).unwrap();
                let slot = referent_addr(o);
                let v = read_word(slot);
                obs.insert(id, (slot.as_usize(), v));
                if let (Some(t), true) = (so.referent, v != 0) {
                    match loc.get(&t) {
                        Some(a) if *a != v => {
                            let kind = self.refs.iter().find(|r| r.id == id).map(|r| r.kind.name()).unwrap_or("?");
                            return fail(&format!("ref:referent_not_forwarded:{}", kind), format!("{} reference id {}: its referent id {} is at {:#x} after the collection but the referent word holds {:#x}", kind, id, t, a, v));
                        }
                        Some(_) => {}
                        None => walk(w, &mut loc, &mut ref_queue, v, t),
                    }
                }
                continue;
            }
            if next_entry < entries.len() {
                let (a, id, is_ready) = entries[next_entry];
                next_entry += 1;
                match loc.get(&id) {
                    Some(cur) if *cur != a => {
                        return fail("final:table_entry_stale", format!("object id {} is at {:#x} after the collection but entry {} of the finalizable processor's `{}` table holds {:#x}: the entry was not forwarded", id, cur, next_entry - 1, if is_ready { "ready_for_finalize" } else { "candidates" }, a));
                    }
                    Some(_) => {}
                    None => walk(w, &mut loc, &mut ref_queue, a, id),
                }
                continue;
            }
            break;
        }
        if !strong_ok {
            // the strongly reachable graph itself is damaged: not C06's to judge; the graph walk
            // reports it
            EXTRA_ROOTS.with(|e| e.borrow_mut().clear());
            EXTRA_REAL_ROOTS.with(|e| e.borrow_mut().clear());
            return Ok(());
        }
        let by_addr: HashMap<usize, u64> = loc.iter().map(|(id, a)| (*a, *id)).collect();

        // ---- what was reported to enqueue_references
        let batches = enqueue_batches(events);
        self.facts.enqueue_events += batches.iter().filter(|b| !b.is_empty()).count() as u64;
        let (early, last): (Vec<usize>, Vec<usize>) = match batches.split_last() {
            Some((l, e)) => (e.iter().flatten().cloned().collect(), l.clone()),
            None => (vec![], vec![]),
        };
        let mut enq: HashSet<u64> = HashSet::new();
        let mut floating_hits = 0usize;
        for a in &last {
            match by_addr.get(a) {
                Some(id) => {
                    if !enq.insert(*id) {
                        return fail("ref:enqueued_twice", format!("reference object id {} (at {:#x}) was passed to enqueue_references twice in one collection", id, a));
                    }
                }
                None => {
                    // mature garbage that a partial collection still treats as live
                    let f = self.refs.iter().position(|r| r.floating && r.addr == *a);
                    match f {
                        Some(i) if !exact => {
                            self.refs.remove(i);
                            floating_hits += 1;
                        }
                        _ => return fail("ref:enqueue_unknown", format!("enqueue_references received {:#x}, which is not the (new) address of any live registered reference object", a)),
                    }
                }
            }
        }
        let _ = floating_hits;

        // ---- per registered reference: observed vs allowed / required
        let mut early_needed = 0usize;
        let mut early_optional = self.refs.iter().filter(|r| r.floating).count();
        let mut keep_regs: Vec<RefReg> = vec![];
        let mut judged: HashSet<u64> = HashSet::new();
        let mut real_roots: Vec<(usize, u64, String)> = vec![];
        let regs = std::mem::take(&mut self.refs);
        for mut r in regs {
            let Some(t) = self.referent_of(w, r.id) else {
                // cleared earlier: not registered any more (kept out of the list by construction)
                continue;
            };
            let kind = r.kind;
            let located = loc.get(&r.id).cloned();
            let Some(addr) = located else {
                // the reference object is dead (or, after a partial collection, floating garbage)
                // (in a batch it may have been alive, cleared and enqueued by an earlier collection)
                if !r.floating {
                    early_optional += 1;
                }
                if !exact && gen && !r.floating {
                    r.floating = true;
                    keep_regs.push(r);
                } else if !exact && r.floating {
                    keep_regs.push(r);
                }
                continue;
            };
            let (slot, val) = obs[&r.id];
            judged.insert(r.id);
            let cleared = val == 0;
            let surely_live = r0.contains(&r.id);
            if addr != w.shadow.objs[&r.id].addr {
                self.facts.moved += 1;
            }
            // safety: a referent that is reachable at least as strongly as the reference's level,
            // from a reference that is itself strongly reachable, is never cleared
            let must_keep = if exact {
                pred[&r.id] == Outcome::Keep
            } else {
                surely_live && (r0.contains(&t) || (retention && (kind == Kind::Soft || r1.contains(&t))))
            };
            if cleared && must_keep {
                let why = if r0.contains(&t) { "strongly reachable" } else if kind == Kind::Soft { "softly reachable from a strongly reachable soft reference in a collection that is not an emergency collection" } else if r1.contains(&t) { "retained by a soft reference" } else { "kept alive for finalization (phantom references are processed after finalization)" };
                return fail(&format!("ref:cleared_reachable:{}", kind.name()), format!("{} reference id {}: its referent id {} is {} but the referent word was cleared by the collection", kind.name(), r.id, t, why));
            }
            if exact {
                match pred[&r.id] {
                    Outcome::Keep => {
                        if enq.contains(&r.id) {
                            return fail(&format!("ref:enqueued_not_cleared:{}", kind.name()), format!("{} reference id {} was passed to enqueue_references but its referent id {} is reachable and was not cleared", kind.name(), r.id, t));
                        }
                    }
                    Outcome::ClearEnqueue => {
                        if !cleared {
                            return fail(
                                &format!("ref:not_cleared:{}", kind.name()),
                                format!(
                                    "{} reference id {} is reachable, its referent id {} is not reachable {} but the referent word still holds {:#x} after a stop-the-world collection of the whole heap{}",
                                    kind.name(),
                                    r.id,
                                    t,
                                    match kind {
                                        Kind::Phantom => "(not even through a finalizable object)",
                                        Kind::Soft => "strongly",
                                        Kind::Weak => "strongly or softly (weak references are cleared before finalization resurrects)",
                                    },
                                    val,
                                    if mode == Mode::ExactEmergency { " (emergency collection)" } else { "" }
                                ),
                            );
                        }
                        if !enq.contains(&r.id) {
                            early_needed += 1;
                        }
                    }
                    Outcome::Silent => {
                        if enq.contains(&r.id) {
                            return fail(&format!("ref:enqueued_dead_reference:{}", kind.name()), format!("{} reference id {} was not reachable when its table was processed but was passed to enqueue_references", kind.name(), r.id));
                        }
                        if cleared {
                            // (possibly by an earlier, partial collection of the batch, which
                            // treats mature garbage as live and enqueues it)
                            early_optional += 1;
                        }
                        if !cleared && !r2.contains(&t) {
                            return fail(&format!("ref:dangling_referent:{}", kind.name()), format!("{} reference id {} survived the collection (kept alive for finalization) with referent word {:#x} but its referent id {} did not survive", kind.name(), r.id, val, t));
                        }
                    }
                }
            } else {
                if enq.contains(&r.id) && !cleared {
                    return fail(&format!("ref:enqueued_not_cleared:{}", kind.name()), format!("{} reference id {} was passed to enqueue_references but its referent word still holds {:#x}", kind.name(), r.id, val));
                }
                if cleared && !enq.contains(&r.id) {
                    if surely_live {
                        early_needed += 1;
                    } else {
                        early_optional += 1;
                    }
                }
            }
            // bookkeeping
            r.addr = addr;
            r.floating = false;
            if cleared {
                w.shadow.objs.get_mut(&r.id).unwrap().referent = None;
                if enq.contains(&r.id) || (exact && pred[&r.id] == Outcome::ClearEnqueue) || (!exact && surely_live) {
                    self.facts.cleared += 1;
                    if mode == Mode::ExactEmergency && kind == Kind::Soft {
                        self.facts.emergency_cleared += 1;
                    }
                    if kind == Kind::Weak && exact && r2.contains(&t) {
                        self.facts.weak_cleared_before_final += 1;
                    }
                }
                if exact && pred[&r.id] == Outcome::Silent && r1.contains(&t) {
                    self.facts.resurrected_ref_cleared_reachable_referent += 1;
                    if std::env::var("C06_STRICT").is_ok() {
                        // the strict reading of the property sentence (off by default, see NOTES.md)
                        return fail(
                            &format!("ref:strict:cleared_reachable_resurrected:{}", kind.name()),
                            format!("{} reference id {} is reachable only through a finalizable object: it was dropped from its table and its referent word cleared (not enqueued) although its referent id {} is reachable; the reference object itself survives the collection", kind.name(), r.id, t),
                        );
                    }
                }
            } else if exact && pred[&r.id] == Outcome::Silent {
                // dropped from MMTk's table with its referent word intact: nobody maintains the
                // word from now on
                self.untracked.insert(r.id);
                w.shadow.objs.get_mut(&r.id).unwrap().referent = None;
            } else {
                if kind == Kind::Soft && !r0.contains(&t) {
                    self.facts.soft_retained += 1;
                }
                if kind == Kind::Phantom && exact && !r1.contains(&t) {
                    self.facts.phantom_kept_by_final += 1;
                }
                if loc.get(&t).map(|a| *a != w.shadow.objs[&t].addr).unwrap_or(false) {
                    self.facts.moved += 1;
                }
                real_roots.push((slot, t, format!("referent of {} reference object id {}", kind.name(), r.id)));
                keep_regs.push(r);
            }
        }
        self.refs = keep_regs;
        if let Some(id) = enq.iter().filter(|id| !judged.contains(id)).min() {
            return fail("ref:enqueued_unregistered", format!("object id {} was passed to enqueue_references but is not a registered reference with a referent (it was enqueued by an earlier collection, or never registered)", id));
        }
        // references cleared by an earlier collection of the batch were enqueued with the address
        // they had then: those reports can only be counted
        if early.len() < early_needed {
            return fail("ref:cleared_not_enqueued", format!("{} reference(s) that were reachable had their referent cleared by the collection but only {} were passed to enqueue_references", early_needed, early.len()));
        }
        if early.len() > early_needed + early_optional {
            return fail("ref:enqueue_unknown", format!("enqueue_references received {} reference(s) more than were cleared", early.len() - early_needed - early_optional));
        }
        // a reference object that is not registered (any more) keeps a null referent word
        for (id, (_, v)) in &obs {
            let so = &w.shadow.objs[id];
            if so.referent.is_none() && *v != 0 && !self.untracked.contains(id) {
                return fail("ref:referent_appeared", format!("reference object id {} had a null referent before the collection and holds {:#x} after it", id, v));
            }
        }

        // ---- finalizer registrations
        let ready_ids: Vec<u64> = entries.iter().filter(|e| e.2).map(|e| e.1).collect();
        if exact {
            let mut want: Vec<u64> = self.fins.iter().zip(&fin_ready_pred).filter(|(_, p)| **p).map(|(f, _)| f.id).collect();
            let mut got = ready_ids.clone();
            want.sort();
            got.sort();
            if want != got {
                let missing: Vec<u64> = want.iter().filter(|x| !got.contains(x)).cloned().collect();
                let extra: Vec<u64> = got.iter().filter(|x| !want.contains(x)).cloned().collect();
                if let Some(x) = extra.first() {
                    return fail("final:ready_but_reachable", format!("object id {} is reachable (strongly{}) but the collection made it ready for finalization (get_finalized_object would return it)", x, if mode == Mode::ExactNormal { " or through a retained soft referent" } else { "" }));
                }
                return fail("final:not_ready", format!("finalizable object(s) {:?} are not reachable but a stop-the-world collection of the whole heap did not make them ready for finalization (ready: {:?})", missing, got));
            }
            for (f, p) in self.fins.iter_mut().zip(&fin_ready_pred) {
                if *p && !f.ready {
                    self.facts.became_ready += 1;
                }
                f.ready = *p;
            }
        } else {
            for x in &ready_ids {
                if r1.contains(x) {
                    return fail("final:ready_but_reachable", format!("object id {} is reachable but the collection made it ready for finalization (get_finalized_object would return it)", x));
                }
            }
            // LIVENESS for young objects in a single user-requested GC(normal) of a generational
            // plan: an object allocated since the last collection lives in the nursery, which
            // every collection collects; if nothing that can be alive reaches it (roots, soft
            // retention, any object that has survived a collection -- mature garbage included, it
            // may be in the remembered set) it is "not alive" after this GC, so its registrations
            // must be ready ("After each GC, if any registered object is not alive,
            // [get_finalized_object] will return one of the objects")
            if gen && n == 1 && !emergency_now && matches!(pending, Pending::Gc { .. }) {
                let maybe_live = closure(w, r1max_all.iter().cloned().chain(w.shadow.objs.values().filter(|o| o.age > 0).map(|o| o.id)));
                let mut left = ready_ids.clone();
                for f in &self.fins {
                    let young = w.shadow.objs.get(&f.id).map(|o| o.age == 0).unwrap_or(false);
                    if young && !maybe_live.contains(&f.id) {
                        match left.iter().position(|x| *x == f.id) {
                            Some(i) => {
                                left.remove(i);
                                self.facts.young_ready_in_normal_gc += 1;
                            }
                            None => {
                                return fail(
                                    "final:not_ready:young",
                                    format!("finalizable object id {} was allocated since the last collection and is not reachable (not from the roots, not through soft references, not from any older object), but the collection did not make it ready for finalization: it is neither kept alive nor will get_finalized_object return it (ready: {:?}, candidates: {:?})", f.id, ready_ids, entries.iter().filter(|e| !e.2).map(|e| e.1).collect::<Vec<_>>()),
                                );
                            }
                        }
                    }
                }
            }
            // adopt what the collection decided
            let mut left = ready_ids.clone();
            for f in self.fins.iter_mut() {
                let was = f.ready;
                f.ready = false;
                if let Some(i) = left.iter().position(|x| *x == f.id) {
                    left.remove(i);
                    f.ready = true;
                    if !was {
                        self.facts.became_ready += 1;
                    }
                }
            }
        }
        for f in self.fins.iter_mut() {
            f.scanned = true;
        }
        if std::mem::replace(&mut self.hazard_pending, false) && gen && n == 1 && !emergency_now && pending == (Pending::Gc { full: false }) {
            self.facts.hazard_then_nursery_gc += 1;
        }
        if exact {
            self.facts.exact_gcs += 1;
            if mode == Mode::ExactEmergency {
                self.facts.emergency_batches += 1;
            }
        } else {
            self.facts.inexact_gcs += 1;
        }

        // ---- additional roots for the graph walk: every table entry and every kept referent
        let buf = self.fin_buf;
        let base = buf as usize;
        for (i, (a, id, is_ready)) in entries.iter().enumerate() {
            unsafe { (*buf)[i] = *a };
            real_roots.push((base + 8 * i, *id, format!("finalizable table entry {} ({})", i, if *is_ready { "ready_for_finalize" } else { "candidates" })));
        }
        let extra_ids: Vec<u64> = real_roots.iter().map(|r| r.1).collect();
        // which objects are alive only through C06's mechanisms
        self.aux.clear();
        let by_final = closure(w, entries.iter().map(|e| e.1));
        let all = closure(w, extra_ids.iter().cloned());
        // (referents reached through referent words of objects in `all` are roots of their own)
        for id in all.iter() {
            if !r0.contains(id) {
                self.aux.insert(*id, if by_final.contains(id) { "final" } else { "ref" });
            }
        }
        EXTRA_ROOTS.with(|e| *e.borrow_mut() = extra_ids);
        EXTRA_REAL_ROOTS.with(|e| *e.borrow_mut() = real_roots);
        Ok(())
    }

    /// `get_finalized_object` until None.
    fn pop_all(&mut self, w: &mut World, resurrect: bool) -> Result<u64, Fail> {
        let mut n = 0;
        let mut first: Option<u64> = None;
        while let Some(o) = mmtk::memory_manager::get_finalized_object(w.mmtk) {
            let a = o.to_raw_address().as_usize();
            let id = w.shadow.objs.values().find(|so| so.addr == a).map(|so| so.id);
            let Some(id) = id else {
                return fail("final:popped_unknown", format!("get_finalized_object returned {:#x}, which is not the address of any object that is alive (id word {:#x})", a, if mmtk::memory_manager::is_mapped_address(o.to_raw_address()) { obj_id(o) } else { 0 }));
            };
            match self.fins.iter().position(|f| f.id == id && f.ready) {
                Some(i) => {
                    self.fins.remove(i);
                }
                None => {
                    if self.fins.iter().any(|f| f.id == id) {
                        return fail("final:returned_reachable", format!("get_finalized_object returned object id {}, which was reachable at the last collection", id));
                    }
                    return fail("final:returned_twice", format!("get_finalized_object returned object id {}, which has no outstanding finalizer registration (every registration was already returned)", id));
                }
            }
            if obj_id(o) != id {
                return fail("final:popped_corrupt", format!("get_finalized_object returned {:#x} for object id {} but the id word there is {}", a, id, obj_id(o)));
            }
            if let Err(m) = check_object(o) {
                return fail("final:popped_corrupt", format!("get_finalized_object returned object id {}: {}", id, m));
            }
            n += 1;
            self.facts.popped += 1;
            if first.is_none() {
                first = Some(id);
            }
        }
        if let Some(f) = self.fins.iter().find(|f| f.ready) {
            return fail("final:not_returned", format!("object id {} became ready for finalization at the last collection but get_finalized_object returned None before returning it ({} returned)", f.id, n));
        }
        if let (true, Some(id)) = (resurrect, first) {
            w.set_root(0, RESURRECT_SLOT, Some(id));
            self.facts.resurrected += 1;
        }
        Ok(n)
    }

    /// `get_finalizers_for(object)` / `get_all_finalizers()`: the result must be exactly the
    /// outstanding registrations (of that object / all), each once, at the objects' current
    /// addresses; they are un-registered.
    fn remove(&mut self, w: &mut World, only: Option<u64>) -> Result<(), Fail> {
        let (api, got): (&str, Vec<ObjectReference>) = match only {
            Some(id) => ("get_finalizers_for", mmtk::memory_manager::get_finalizers_for(w.mmtk, w.obj_ref(id))),
            None => ("get_all_finalizers", mmtk::memory_manager::get_all_finalizers(w.mmtk)),
        };
        self.facts.removal_calls += 1;
        let mut expect: Vec<u64> = self.fins.iter().filter(|f| only.map(|id| f.id == id).unwrap_or(true)).map(|f| f.id).collect();
        let mut got_ids: Vec<u64> = vec![];
        for o in &got {
            let a = o.to_raw_address().as_usize();
            let mut ids: Vec<u64> = w.shadow.objs.values().filter(|so| so.addr == a).map(|so| so.id).collect();
            ids.sort();
            // (an object that died since the last collection may share the address range of
            // nothing else: addresses are unique among the objects the shadow heap still knows)
            match ids.iter().find(|id| expect.contains(id)).or(ids.first()) {
                Some(id) => got_ids.push(*id),
                None => return fail(&format!("final:{}:unknown_object", api), format!("{} returned {:#x}, which is not the address of any object with a finalizer registration (expected registrations of objects {:?})", api, a, expect)),
            }
        }
        expect.sort();
        let mut sorted = got_ids.clone();
        sorted.sort();
        if sorted != expect {
            return fail(
                &format!("final:{}:wrong_result", api),
                format!("{}{} returned registrations of objects {:?}; the outstanding registrations are {:?} (every registration exactly once)", api, only.map(|id| format!("(object id {})", id)).unwrap_or_default(), sorted, expect),
            );
        }
        for o in &got {
            if let Err(m) = check_object(*o) {
                return fail(&format!("final:{}:corrupt", api), format!("{} returned a damaged object: {}", api, m));
            }
        }
        self.facts.removed += got.len() as u64;
        // the entries after a removed one shift: does an unscanned registration remain behind
        // a removed scanned one?
        let removed_scanned = self.fins.iter().any(|f| only.map(|id| f.id == id).unwrap_or(true) && f.scanned && !f.ready);
        self.fins.retain(|f| only.map(|id| f.id != id).unwrap_or(false));
        if removed_scanned && self.fins.iter().any(|f| !f.scanned) {
            self.facts.removal_hazards += 1;
            self.hazard_pending = true;
        }
        // what nobody holds any more: the first such object goes to the resurrection slot
        if only.is_none() {
            let rooted = closure(w, strong_roots(w));
            if let Some(id) = got_ids.iter().find(|id| !rooted.contains(id)) {
                w.set_root(0, RESURRECT_SLOT, Some(*id));
                self.facts.resurrected += 1;
            }
        }
        Ok(())
    }

    /// Failures of the generic graph walk that concern what only C06's mechanisms keep alive.
    fn reclassify(&self, e: Fail) -> Fail {
        let (sig, msg) = e;
        if !sig.starts_with("graph:") {
            return (sig, msg);
        }
        if msg.contains("referent of ") && msg.contains(" reference object id ") {
            return (format!("ref:{}", sig), msg);
        }
        if msg.contains("finalizable table entry ") {
            return (format!("final:{}", sig), msg);
        }
        // "field i of object id N [Sem]" / "object id N"
        for (id, class) in &self.aux {
            if msg.contains(&format!("of object id {} [", id)) || msg.starts_with(&format!("object id {} ", id)) {
                return (format!("{}:{}", class, sig), msg);
            }
        }
        (sig, msg)
    }
}

fn hook(w: &mut World, n: u64, events: &[VmEvent]) -> Result<(), Fail> {
    MODEL.with(|m| m.borrow_mut().as_mut().expect("C06 model").on_gc(w, n, events))
}

fn with_model<R>(f: impl FnOnce(&mut Model) -> R) -> R {
    MODEL.with(|m| f(m.borrow_mut().as_mut().expect("C06 model")))
}

// ---------------------------------------------------------------------------------------------
// interpreter

fn gc(w: &mut World, full: bool) -> Result<(), Fail> {
    with_model(|m| m.pending = Pending::Gc { full });
    let r = w.gc(0, full);
    with_model(|m| m.pending = Pending::None);
    r
}

fn step(w: &mut World, op: &Op) -> Result<(), Fail> {
    match *op {
        Op::Alloc => {
            let slot = (0..SLOTS).find(|s| w.root(0, *s).is_none()).expect("alloc with no empty root slot");
            if w.alloc_obj(0, slot, PLAIN_SIZE, 2, 8, Sem::Default, false)?.is_none() {
                return fail("alloc:null", "alloc returned null in a heap with plenty of room".into());
            }
        }
        Op::AllocRef { kind, referent } => {
            let t = w.root(0, referent as usize).expect("referent root is empty");
            let slot = (0..SLOTS).find(|s| w.root(0, *s).is_none()).expect("allocref with no empty root slot");
            let Some(id) = w.alloc_obj(0, slot, REF_SIZE, 2, 8, Sem::Default, true)? else {
                return fail("alloc:null", "alloc returned null in a heap with plenty of room".into());
            };
            // the referent is set first (its address is read after the allocation, which may have
            // collected), then the reference object is registered -- once
            let ro = w.obj_ref(id);
            let to = w.obj_ref(t);
            <VerifVM as ReferenceGlue<VerifVM>>::set_referent(ro, to);
            w.shadow.objs.get_mut(&id).unwrap().referent = Some(t);
            match kind {
                Kind::Soft => mmtk::memory_manager::add_soft_candidate(w.mmtk, ro),
                Kind::Weak => mmtk::memory_manager::add_weak_candidate(w.mmtk, ro),
                Kind::Phantom => mmtk::memory_manager::add_phantom_candidate(w.mmtk, ro),
            }
            let addr = ro.to_raw_address().as_usize();
            with_model(|m| m.refs.push(RefReg { id, kind, addr, floating: false }));
        }
        Op::AddFin { slot } => {
            let id = w.root(0, slot as usize).expect("addfin of empty root");
            w.stats.ops += 1;
            mmtk::memory_manager::add_finalizer(w.mmtk, w.obj_ref(id));
            with_model(|m| m.fins.push(FinReg { id, ready: false, scanned: false }));
        }
        Op::Drop { slot } => w.drop_root(0, slot as usize),
        Op::Write { src, dst } => {
            let s = w.root(0, src as usize).expect("write from empty root");
            let d = if dst == NULL { None } else { Some(w.root(0, dst as usize).expect("write of empty root")) };
            w.write_field(0, s, 0, d);
        }
        Op::Gc { full } => gc(w, full)?,
        Op::Pop => {
            w.stats.ops += 1;
            MODEL.with(|m| m.borrow_mut().as_mut().unwrap().pop_all(w, true))?;
        }
        Op::GetFinFor { slot } => {
            let id = w.root(0, slot as usize).expect("get_finalizers_for of empty root");
            w.stats.ops += 1;
            MODEL.with(|m| m.borrow_mut().as_mut().unwrap().remove(w, Some(id)))?;
        }
        Op::GetAllFin => {
            w.stats.ops += 1;
            MODEL.with(|m| m.borrow_mut().as_mut().unwrap().remove(w, None))?;
        }
        Op::Emergency => {
            w.stats.ops += 1;
            with_model(|m| m.pending = Pending::Emergency);
            let before = OOM_COUNT.load(std::sync::atomic::Ordering::SeqCst);
            let r = w.alloc_raw(0, w.cfg.heap_bytes, 8, 0, Sem::Los, None);
            with_model(|m| m.pending = Pending::None);
            let a = r?;
            if !a.is_zero() || OOM_COUNT.load(std::sync::atomic::Ordering::SeqCst) == before {
                return fail("c06harness:emergency", format!("an allocation of the whole heap size returned {} (out_of_memory upcalls: {})", a, OOM_COUNT.load(std::sync::atomic::Ordering::SeqCst) - before));
            }
        }
    }
    Ok(())
}

/// ops, closing exhaustive collection, drain.
fn run_program(w: &mut World, p: &[Op]) -> Result<(), Fail> {
    for op in p {
        step(w, op)?;
    }
    gc(w, true)?;
    MODEL.with(|m| m.borrow_mut().as_mut().unwrap().pop_all(w, false))?;
    Ok(())
}

/// Back to an abstractly empty heap *and* empty MMTk tables: drop the roots, collect (every
/// outstanding registration becomes ready), pop everything, forget the model.
fn reset(w: &mut World) -> Result<(), Fail> {
    // a phantom reference reachable from a finalizable object survives the first round (with
    // its registration): repeat until MMTk's tables and the model are empty
    for round in 0.. {
        with_model(|m| m.pending = Pending::Gc { full: true });
        let r = w.reset();
        with_model(|m| m.pending = Pending::None);
        r?;
        MODEL.with(|m| m.borrow_mut().as_mut().unwrap().pop_all(w, false))?;
        EXTRA_ROOTS.with(|e| e.borrow_mut().clear());
        EXTRA_REAL_ROOTS.with(|e| e.borrow_mut().clear());
        let empty = with_model(|m| m.fins.is_empty() && m.refs.is_empty());
        if empty {
            break;
        }
        if round >= 3 {
            with_model(|m| machinery_failure(&format!("C06: model not empty after reset: {:?} {:?}", m.fins, m.refs)));
        }
    }
    with_model(|m| {
        m.untracked.clear();
        m.aux.clear();
    });
    Ok(())
}

fn canonical(w: &World) -> u64 {
    // graph shape up to renaming from the roots in slot order, with reference kind / referent /
    // registration state and finalizer registrations
    let mut num: HashMap<u64, usize> = HashMap::new();
    let mut out: Vec<u64> = vec![];
    let mut stack: Vec<u64> = vec![];
    let (refs, fins): (Vec<(u64, Kind)>, Vec<(u64, bool)>) = with_model(|m| (m.refs.iter().map(|r| (r.id, r.kind)).collect(), m.fins.iter().map(|f| (f.id, f.ready)).collect()));
    let visit = |id: u64, num: &mut HashMap<u64, usize>, stack: &mut Vec<u64>| -> u64 {
        let n = num.len();
        *num.entry(id).or_insert_with(|| {
            stack.push(id);
            n
        }) as u64
    };
    for s in w.shadow.roots[0].as_ref().unwrap().iter().take(SLOTS + 1) {
        match s {
            None => out.push(u64::MAX),
            Some(id) => {
                let k = visit(*id, &mut num, &mut stack);
                out.push(k);
                while let Some(x) = stack.pop() {
                    let Some(o) = w.shadow.objs.get(&x) else { continue };
                    out.push(o.is_ref as u64);
                    out.push(o.age.min(2) as u64);
                    out.push(refs.iter().find(|r| r.0 == x).map(|r| r.1 as u64 + 1).unwrap_or(0));
                    out.push(fins.iter().filter(|f| f.0 == x).count() as u64);
                    for f in o.fields.iter().chain(std::iter::once(&o.referent)) {
                        match f {
                            None => out.push(u64::MAX),
                            Some(t) => {
                                let k = visit(*t, &mut num, &mut stack);
                                out.push(k);
                            }
                        }
                    }
                }
            }
        }
    }
    let mut h = std::collections::hash_map::DefaultHasher::new();
    out.hash(&mut h);
    h.finish()
}

// ---------------------------------------------------------------------------------------------
// profile

fn plans() -> Vec<&'static str> {
    COLLECTING_PLANS.to_vec()
}

/// "" = default options; "defrag" (Immix family) = every collection defragments every block, so
/// that objects move under Immix as well.
/// "" = the main alphabet; "fintable" = finalizer-table management (get_finalizers_for /
/// get_all_finalizers, deeper, no reference objects); "...defrag" (Immix family) = the same with
/// every collection defragmenting every block, so that objects move under Immix as well.
fn variants(plan: &str) -> Vec<&'static str> {
    if is_immix_family(plan) {
        vec!["", "defrag", "fintable", "fintable-defrag"]
    } else {
        vec!["", "fintable"]
    }
}

fn depth(plan: &str, variant: &str, t: Tier) -> usize {
    if is_fintable(variant) {
        // 2 root slots in quick, 3 in thorough
        return match (plan, t) {
            ("MarkCompact", Tier::Quick) => 4,
            ("PageProtect", Tier::Quick) => 5,
            (p, Tier::Quick) if is_gen(p) => 7,
            (_, Tier::Quick) => 6,
            ("MarkCompact", Tier::Thorough) => 6,
            ("PageProtect", Tier::Thorough) => 7,
            (_, Tier::Thorough) => 8,
        };
    }
    match (plan, t) {
        // ~35 ms per program
        ("MarkCompact", Tier::Quick) => 3,
        (_, Tier::Quick) => 4,
        ("MarkCompact", Tier::Thorough) => 4,
        // ~1-2.5 ms per program (sweeping / a page and an mprotect per object)
        ("MarkSweep", Tier::Thorough) | ("PageProtect", Tier::Thorough) => 5,
        (_, Tier::Thorough) => 6,
    }
}

fn boot(plan: &str, variant: &str) -> BootCfg {
    let mut c = BootCfg::new(plan);
    if variant.ends_with("defrag") {
        c.options.push(("immix_always_defrag".into(), "true".into()));
        c.options.push(("immix_defrag_every_block".into(), "true".into()));
    }
    c
}

pub fn owns(sig: &str) -> bool {
    sig.starts_with("ref:") || sig.starts_with("final:") || ((sig.starts_with("crash:") || sig.starts_with("panic")) && (sig.contains("reference_processor.rs") || sig.contains("finalizable_processor.rs")))
}

fn own_all() -> bool {
    std::env::var("VERIF_OWN_ALL").is_ok()
}

const RULE: &str = "every program of length <= depth (quick 4, MarkCompact 3; thorough 6, MarkSweep and PageProtect 5, MarkCompact 4) over {alloc 48 B object -> lowest empty root (3 roots); allocref(kind in soft|weak|phantom, referent = root r): 56 B reference object -> lowest empty root, referent word set, then add_{kind}_candidate; addfin(root): add_finalizer (repeatable); drop root; write root.f0 <- root|null through the barrier; GC(normal) [generational plans only: `exhaustive` is ignored by the others]; GC(exhaustive); pop: get_finalized_object until None, first result re-rooted; emergency: an allocation of the whole heap size, which makes MMTk collect until the collection is an emergency collection and then report out-of-memory [after a soft reference exists; not ConcurrentImmix]} that contains an allocref or addfin, plus one level deeper the programs whose last operation is a pop, a normal GC or an emergency and in which a collection follows an addfin (pops that return something, resurrection, un-popped ready objects crossing a collection), per collecting plan (10) and, for the Immix family, also with immix_always_defrag + immix_defrag_every_block; PLUS the variant `fintable` (own child per plan, and per Immix-family plan with defrag): every program of length <= depth (quick: generational plans 7, others 6, PageProtect 5, MarkCompact 4, 2 roots; thorough: 8, PageProtect 7, MarkCompact 6, 3 roots) over {alloc, addfin(root) (at most 2 per object), drop, GC(normal) [generational], GC(exhaustive), getfinalizersfor(root with a registration) = get_finalizers_for, getallfinalizers = get_all_finalizers (first returned object that no root holds is re-rooted), pop (after a collection with a registration of a dropped object outstanding)} that contains a getfinalizersfor or getallfinalizers; each program is followed by a closing exhaustive GC and a drain (pop until None), programs run back to back on one real MMTK instance with one GC worker. After every collection: SAFETY (all collections) a referent reachable at least as strongly as its reference's level from a strongly reachable reference object is not cleared and (graph walk through the referent word) is the same intact object at its new address; every cleared reference that was reachable is reported to enqueue_references exactly once, nothing else is; a reachable finalizable object is never made ready / returned; every registration is returned at most once; every object kept for finalization and everything it references is intact (graph walk from the finalizable tables); LIVENESS (only a single user-requested stop-the-world collection of the whole heap: every GC of the non-generational plans incl. ConcurrentImmix user GCs, exhaustive GCs of the generational plans; and the emergency batch) weak referent not in R1 cleared, soft referent not in R0 cleared in an emergency collection and retained otherwise, phantom referent not in R2 cleared and kept if only a finalizable keeps it alive, unreachable finalizable ready and returned exactly once; get_finalizers_for / get_all_finalizers return exactly the outstanding registrations (of that object / all), each once, and un-register them, and every registration left in the tables is processed by the following collections like any other (table invariants after every GC; in a single user-requested GC(normal) of a generational plan a finalizable object allocated since the last collection that nothing possibly-live reaches -- roots, soft retention, any object that survived a collection -- must become ready: final:not_ready:young). distinct_nontrivial (fintable variant) = programs in which such a call removed a registration that had been through a collection while a registration made since stayed in the table (the entries behind it shift below the processor's nursery_index) and, on generational plans, the next collection was a GC(normal); distinct_nontrivial (main variant) = programs in which a referent died (cleared + enqueued) or a finalizable became ready AND (plans/variants that move objects in these programs) a reference object or retained referent moved";

struct ChildOut {
    evaluated: u64,
    nontrivial: u64,
}

pub fn child(args: &[String]) {
    let plan = args[0].as_str();
    let tier = if args.get(1).map(|s| s.as_str()) == Some("thorough") { Tier::Thorough } else { Tier::Quick };
    let variant = args.get(3).map(|s| s.as_str()).unwrap_or("");
    install_crash_handlers();
    let _ = crate::common::WORKER_PANIC_HANDLER.set(Box::new(worker_panic_to_crash));
    let cfg = boot(plan, variant);
    set_current_case(&json!({"plan": plan, "variant": variant, "program": "boot"}));
    let mut w = World::boot(cfg.clone());
    MODEL.with(|m| *m.borrow_mut() = Some(Model::new(plan)));
    PRE_VERIFY_HOOK.with(|h| h.set(Some(hook)));
    let mut sub = Run::new(ID, tier);
    let d = depth(plan, variant, tier);
    let label = if variant.is_empty() { plan.to_string() } else { format!("{}/{}", plan, variant) };
    let progs: Vec<Vec<Op>> = if args.get(2).map(|s| s.as_str()) == Some("replay") {
        let p = prog_from_json(&serde_json::from_str::<Value>(&args[4]).unwrap_or(Value::Null));
        if args.get(5).map(|s| s.as_str()) == Some("prefix") {
            let n: usize = args[6].parse().unwrap_or(0);
            let mut all = programs(plan, variant, tier, d.max(p.len()));
            all.truncate(n + 1);
            all
        } else {
            vec![p]
        }
    } else {
        programs(plan, variant, tier, d)
    };
    let mut states: HashSet<u64> = HashSet::new();
    let mut out = ChildOut { evaluated: 0, nontrivial: 0 };
    let mut stopped = false;
    let total = progs.len();
    // does this plan/variant move objects in programs of this kind?  measured, not assumed:
    // decided after the run from the total number of moves observed
    let mut died_or_ready_progs: u64 = 0;
    let mut died_or_ready_and_moved: u64 = 0;
    let mut order_dependent_progs: u64 = 0;
    let mut hazard_progs: u64 = 0;
    let mut sampled: Vec<String> = vec![];
    // debugging aid: C06_TRACE=<file> writes the facts of every program
    let mut trace = std::env::var("C06_TRACE").ok().and_then(|p| std::fs::File::create(p).ok()).map(std::io::BufWriter::new);
    for (i, p) in progs.iter().enumerate() {
        let case = json!({"plan": plan, "variant": variant, "ordinal": i, "program": prog_json(p), "boot": cfg.json()});
        set_current_case(&case);
        with_model(|m| m.facts = Facts::default());
        let r = catch(|| run_program(&mut w, p));
        out.evaluated += 1;
        let failure: Option<Fail> = match r {
            Ok(Ok(())) => {
                let mut f = with_model(|m| m.facts.clone());
                if f.order_dependent {
                    order_dependent_progs += 1;
                    f = Facts::default();
                    with_model(|m| m.facts = Facts::default());
                } else {
                    states.insert(canonical(&w));
                }
                if let Some(t) = trace.as_mut() {
                    use std::io::Write;
                    let _ = writeln!(t, "{} {} ready={} cleared={} retained={} tolerated={} popped={} exact={} inexact={} removed={} hazards={}/{}", i, prog_json(p), f.became_ready, f.cleared, f.soft_retained, f.resurrected_ref_cleared_reachable_referent, f.popped, f.exact_gcs, f.inexact_gcs, f.removed, f.removal_hazards, f.hazard_then_nursery_gc);
                }
                if if is_gen(plan) { f.hazard_then_nursery_gc > 0 } else { f.removal_hazards > 0 } {
                    hazard_progs += 1;
                }
                if f.cleared + f.became_ready > 0 {
                    died_or_ready_progs += 1;
                    if f.moved > 0 {
                        died_or_ready_and_moved += 1;
                    }
                }
                let want = |k: &str, on: bool, seen: &mut Vec<String>| -> bool {
                    if on && !seen.iter().any(|x| x == k) {
                        seen.push(k.to_string());
                        true
                    } else {
                        false
                    }
                };
                // one sample per kind of event (first program showing it), plus evenly spaced ones
                let pick = want("emergency", f.emergency_cleared > 0, &mut sampled) || want("weak_before_final", f.weak_cleared_before_final > 0, &mut sampled) || want("phantom_after_final", f.phantom_kept_by_final > 0, &mut sampled) || want("resurrected", f.resurrected > 0, &mut sampled) || want("soft_retained", f.soft_retained > 0 && f.cleared > 0, &mut sampled);
                if pick || i % (total / 2 + 1) == 0 {
                    sub.sample(json!({"plan": label, "program": prog_json(p), "referents_cleared_and_enqueued": f.cleared, "finalizables_became_ready": f.became_ready, "popped": f.popped, "moved": f.moved, "soft_retained": f.soft_retained, "soft_cleared_in_emergency": f.emergency_cleared, "weak_cleared_before_finalization": f.weak_cleared_before_final, "phantom_kept_by_finalizable": f.phantom_kept_by_final, "resurrected": f.resurrected}));
                }
                with_model(|m| {
                    let f = m.facts.clone();
                    let t = &mut m.total;
                    t.cleared += f.cleared;
                    t.became_ready += f.became_ready;
                    t.moved += f.moved;
                    t.soft_retained += f.soft_retained;
                    t.emergency_cleared += f.emergency_cleared;
                    t.weak_cleared_before_final += f.weak_cleared_before_final;
                    t.phantom_kept_by_final += f.phantom_kept_by_final;
                    t.popped += f.popped;
                    t.resurrected += f.resurrected;
                    t.exact_gcs += f.exact_gcs;
                    t.inexact_gcs += f.inexact_gcs;
                    t.emergency_batches += f.emergency_batches;
                    t.enqueue_events += f.enqueue_events;
                    t.removal_calls += f.removal_calls;
                    t.removed += f.removed;
                    t.removal_hazards += f.removal_hazards;
                    t.hazard_then_nursery_gc += f.hazard_then_nursery_gc;
                    t.young_ready_in_normal_gc += f.young_ready_in_normal_gc;
                    t.resurrected_ref_cleared_reachable_referent += f.resurrected_ref_cleared_reachable_referent;
                });
                match catch(|| reset(&mut w)) {
                    Ok(Ok(())) => None,
                    Ok(Err(e)) => Some(e),
                    Err(pm) => Some((format!("panic{}", panic_slug(&format!("{}:0: {}", crate::common::last_panic_location(), pm))), format!("panic in the closing reset: {}", pm))),
                }
            }
            Ok(Err(e)) => Some(e),
            Err(pm) => Some((format!("panic{}", panic_slug(&format!("{}:0: {}", crate::common::last_panic_location(), pm))), format!("panic at {}: {}", crate::common::last_panic_location(), pm.lines().next().unwrap_or("")))),
        };
        if let Some(e) = failure {
            let (sig, msg) = with_model(|m| m.reclassify(e));
            if own_all() || owns(&sig) {
                sub.violation(format!("{}:{}", sig, label), format!("plan {} program #{} {}: {}", label, i, prog_json(p), msg), case);
            } else {
                sub.assume(&format!("plan {}: exploration stopped at program #{} by a failure of another property's class ({})", label, i, sig));
                sub.set("foreign_failures", json!([format!("{}: {} (program {})", sig, msg, prog_json(p))]));
            }
            stopped = true;
            break;
        }
    }
    drop(trace);
    let t = with_model(|m| m.total.clone());
    // rule for distinct_nontrivial: for a plan/variant in which objects moved at all, a program
    // counts only if something moved in it
    out.nontrivial = if is_fintable(variant) {
        hazard_progs
    } else if t.moved > 0 {
        died_or_ready_and_moved
    } else {
        died_or_ready_progs
    };
    sub.add("states", states.len() as u64);
    sub.add("transitions", w.stats.ops);
    sub.add("evaluations", out.evaluated);
    sub.add("traces_validated_against_impl", out.evaluated);
    sub.add("distinct_nontrivial", out.nontrivial);
    sub.add("collections", w.stats.gcs);
    sub.add("collections_judged_exactly", t.exact_gcs);
    sub.add("collections_judged_safety_only", t.inexact_gcs);
    sub.add("emergency_collections", t.emergency_batches);
    sub.add("referents_cleared_and_enqueued", t.cleared);
    sub.add("soft_referents_retained", t.soft_retained);
    sub.add("soft_referents_cleared_in_emergency", t.emergency_cleared);
    sub.add("weak_cleared_before_finalization_resurrected_referent", t.weak_cleared_before_final);
    sub.add("phantom_kept_because_finalizable_keeps_referent", t.phantom_kept_by_final);
    sub.add("tolerated_resurrected_reference_cleared_without_enqueue_although_referent_reachable", t.resurrected_ref_cleared_reachable_referent);
    sub.add("finalizables_became_ready", t.became_ready);
    sub.add("finalizables_popped", t.popped);
    sub.add("finalizables_resurrected", t.resurrected);
    sub.add("get_finalizers_for_and_get_all_finalizers_calls", t.removal_calls);
    sub.add("registrations_returned_by_those_calls", t.removed);
    sub.add("removals_of_a_scanned_registration_with_an_unscanned_one_left", t.removal_hazards);
    sub.add("such_removals_followed_by_a_nursery_gc", t.hazard_then_nursery_gc);
    sub.add("young_unreachable_finalizables_made_ready_by_gc_normal", t.young_ready_in_normal_gc);
    sub.add("reference_or_referent_moves", t.moved);
    sub.add("objects_verified", w.stats.objects_verified);
    sub.add("programs_with_order_dependent_soft_chain_not_counted", order_dependent_progs);
    sub.set("max_depth", d as u64);
    if !is_fintable(variant) {
        sub.set("restricted_extra_depth", d as u64 + 1);
    }
    sub.set("exhaustive", !stopped);
    sub.set("per_plan", json!({label: {"programs": out.evaluated, "depth": d, "collections": w.stats.gcs, "moves": t.moved, "nontrivial": out.nontrivial, "cleared": t.cleared, "ready": t.became_ready, "emergency": t.emergency_batches, "removal_calls": t.removal_calls, "removal_hazards": t.removal_hazards, "hazard_then_nursery_gc": t.hazard_then_nursery_gc}}));
    emit_child_result(&sub.to_child_json());
}

fn absorb(run: &mut Run, names: &[String], results: Vec<Value>) {
    for (name, r) in names.iter().zip(results) {
        if r.get("child_crashed").is_some() {
            let crash = r["crash"].as_str().unwrap_or("");
            let (sig, rest) = crash.split_once(' ').unwrap_or((crash, ""));
            let (case_s, detail) = rest.split_once(" ||| ").unwrap_or((rest, ""));
            let case: Value = serde_json::from_str(case_s).unwrap_or(json!({"plan": name, "raw": case_s}));
            let loc = detail.split("panicked at ").nth(1).map(panic_slug);
            let class = format!("crash:{}{}", sig, loc.unwrap_or_default());
            if own_all() || owns(&class) {
                run.violation(format!("{}:{}", class, name), format!("plan {}: the process died ({}) while running the program {} {}", name, sig, case["program"], detail), case);
            } else {
                run.assume(&format!("plan {}: exploration stopped by a crash ({}) that belongs to another property's failure class", name, class));
                run.set("foreign_failures", json!([format!("{}: program {} {}", class, case["program"], detail)]));
                run.set("exhaustive", false);
            }
            run.add("children_crashed", 1);
            continue;
        }
        if r.get("child_died").is_some() {
            machinery_failure(&format!("child for plan {} died without a result: {}", name, r));
        }
        run.absorb_child_json(&r);
    }
}

pub fn run(run: &mut Run) {
    let mut jobs: Vec<(&str, &str)> = vec![];
    for p in plans() {
        for v in variants(p) {
            jobs.push((p, v));
        }
    }
    let args: Vec<Vec<String>> = jobs.iter().map(|(p, v)| vec!["--child".to_string(), ID.to_string(), p.to_string(), run.tier.name().to_string(), "run".to_string(), v.to_string()]).collect();
    let results = run_children(args, run.jobs, run.tier.pick(300, 3000));
    let names: Vec<String> = jobs.iter().map(|(p, v)| if v.is_empty() { p.to_string() } else { format!("{}/{}", p, v) }).collect();
    absorb(run, &names, results);
    run.set("rule", RULE);
    run.set("plans", json!(plans()));
    run.set("placement", PLACEMENT);
    run.set("features", json!(crate::shadowvm::feature_set()));
    run.assume("one GC worker (deterministic); reference candidates are registered by the mutator when the reference object is created (the documented alternative to discovery during tracing), once, after the referent is set; referents are never re-set or cleared by the mutator");
    run.assume("liveness is judged only for single user-requested stop-the-world whole-heap collections and for the emergency batch; nursery collections and anything unexpected are judged in the safety direction only");
    run.assume("the finalizable processor's tables are read through the verif hook finalizable_tables (a non-destructive get_all_finalizers) to locate what only MMTk keeps alive");
}

pub fn replay(case: &Value, run: &mut Run) {
    let plan = case["plan"].as_str().unwrap_or("SemiSpace").to_string();
    let prog = serde_json::to_string(&case["program"]).unwrap();
    let ord = case["ordinal"].as_u64().unwrap_or(0).to_string();
    let variant = case["variant"].as_str().unwrap_or("").to_string();
    let name = if variant.is_empty() { plan.clone() } else { format!("{}/{}", plan, variant) };
    let base = vec!["--child".to_string(), ID.to_string(), plan.clone(), run.tier.name().to_string(), "replay".to_string(), variant, prog];
    let r = run_children(vec![base.clone()], 1, 600);
    let before = run.violations.len();
    absorb(run, &[name.clone()], r);
    if run.violations.len() == before {
        // the failure depended on the history: replay the enumeration prefix
        let mut a = base;
        a.push("prefix".to_string());
        a.push(ord);
        let r = run_children(vec![a], 1, run.tier.pick(300, 3000));
        absorb(run, &[name], r);
    }
}
