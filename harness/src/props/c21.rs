//! C21 bulk side-metadata zero / set / copy: every (start, size) in region units over a window
//! that crosses byte and word boundaries of the metadata, every width, three background
//! patterns, plus ranges around a 4 MiB chunk boundary; the complete metadata window (with a
//! margin) is compared with a model image.

use super::c20::{field_loc, init_side_metadata};
use crate::common::{catch, Run};
use mmtk::util::metadata::side_metadata::{verif_hooks, SideMetadataSpec};
use mmtk::util::Address;
use serde_json::{json, Value};

const DATA_BASE: usize = 0x80_0000;
/// source spec of bcopy lives 1 GiB further into the metadata area
const SRC_OFFSET: usize = 1 << 30;

#[derive(Clone, Copy, Debug, PartialEq, Eq)]
enum Kind {
    Zero,
    Set,
    Copy,
}

fn pattern(bg: u8, k: usize, salt: u8) -> u8 {
    match bg {
        0 => 0x00,
        1 => 0xff,
        _ => ((k as u32).wrapping_mul(2654435761).rotate_left(7) as u8) ^ salt,
    }
}

struct Window {
    log_bits: usize,
    log_region: usize,
    dst: SideMetadataSpec,
    src: SideMetadataSpec,
    base: Address,
    meta_base: Address,
    /// first and one-past-last metadata byte watched (dst), including the margin
    lo: Address,
    hi: Address,
    regions: usize,
}

impl Window {
    fn new(log_bits: usize, log_region: usize, first_region_base: usize, regions: usize) -> Window {
        let dst = SideMetadataSpec { name: "verif-c21-dst", is_global: true, offset: 0, log_num_of_bits: log_bits, log_bytes_in_region: log_region };
        let src = SideMetadataSpec { name: "verif-c21-src", is_global: true, offset: SRC_OFFSET, log_num_of_bits: log_bits, log_bytes_in_region: log_region };
        let (meta_base, _) = verif_hooks::reserved_range();
        let base = unsafe { Address::from_usize(first_region_base) };
        let rs = 1usize << log_region;
        // map metadata for the window plus generous margins on both sides
        let margin_regions = ((64usize * 8) >> log_bits).max(1) * 2;
        let data_lo = (base - margin_regions * rs).align_down(4096);
        let data_hi = (base + (regions + margin_regions) * rs).align_up(4096);
        assert!(verif_hooks::map_metadata(&[dst, src], &[], data_lo, data_hi - data_lo));
        let lo = field_loc(meta_base, log_bits, log_region, base).byte - 24usize;
        let end = field_loc(meta_base, log_bits, log_region, base + regions * rs);
        let hi = end.byte + 32usize;
        Window { log_bits, log_region, dst, src, base, meta_base, lo, hi, regions }
    }
    fn src_addr(&self, dst_meta: Address) -> Address {
        dst_meta + SRC_OFFSET
    }
    fn fill(&self, bg: u8) {
        let n = self.hi - self.lo;
        for k in 0..n {
            unsafe {
                (self.lo + k).store::<u8>(pattern(bg, k, 0));
                self.src_addr(self.lo + k).store::<u8>(pattern(if bg == 0 { 1 } else if bg == 1 { 0 } else { 2 }, k, 0x5a));
            }
        }
    }
    /// expected image of the dst window after `kind` over regions [s, s + n)
    fn expected(&self, bg: u8, kind: Kind, s: usize, n: usize) -> Vec<u8> {
        let len = self.hi - self.lo;
        let mut img: Vec<u8> = (0..len).map(|k| pattern(bg, k, 0)).collect();
        let srcimg: Vec<u8> = (0..len).map(|k| pattern(if bg == 0 { 1 } else if bg == 1 { 0 } else { 2 }, k, 0x5a)).collect();
        let bits = 1usize << self.log_bits;
        let rs = 1usize << self.log_region;
        for r in s..s + n {
            let l = field_loc(self.meta_base, self.log_bits, self.log_region, self.base + r * rs);
            // bit by bit (fields of >= 8 bits span whole bytes)
            for b in 0..bits {
                let bit = l.shift as usize + b;
                let byte = (l.byte + bit / 8) - self.lo;
                let m = 1u8 << (bit % 8);
                match kind {
                    Kind::Zero => img[byte] &= !m,
                    Kind::Set => img[byte] |= m,
                    Kind::Copy => img[byte] = (img[byte] & !m) | (srcimg[byte] & m),
                }
            }
        }
        img
    }
    fn run_one(&self, bg: u8, kind: Kind, s: usize, n: usize) -> Result<(), String> {
        self.fill(bg);
        let rs = 1usize << self.log_region;
        let start = self.base + s * rs;
        let size = n * rs;
        catch(|| match kind {
            Kind::Zero => self.dst.bzero_metadata(start, size),
            Kind::Set => self.dst.bset_metadata(start, size),
            Kind::Copy => self.dst.bcopy_metadata_contiguous(start, size, &self.src),
        })
        .map_err(|p| format!("panic: {} @ {}", p, crate::common::last_panic_location()))?;
        let want = self.expected(bg, kind, s, n);
        let got = unsafe { std::slice::from_raw_parts(self.lo.to_ptr::<u8>(), self.hi - self.lo) };
        if got != want.as_slice() {
            let k = (0..want.len()).find(|k| got[*k] != want[*k]).unwrap();
            let first_field_byte = field_loc(self.meta_base, self.log_bits, self.log_region, start).byte;
            return Err(format!(
                "metadata byte {:+} relative to the first covered byte is {:#04x}, expected {:#04x} (regions [{}, {}) of {} bits)",
                (self.lo + k).as_usize() as isize - first_field_byte.as_usize() as isize,
                got[k],
                want[k],
                s,
                s + n,
                1 << self.log_bits
            ));
        }
        // the source must never change
        for k in 0..(self.hi - self.lo) {
            let b = unsafe { self.src_addr(self.lo + k).load::<u8>() };
            if b != pattern(if bg == 0 { 1 } else if bg == 1 { 0 } else { 2 }, k, 0x5a) {
                return Err(format!("source metadata byte {} changed", k));
            }
        }
        Ok(())
    }
}

pub fn run(run: &mut Run) {
    init_side_metadata();
    let thorough = run.tier == crate::common::Tier::Thorough;
    let span = if thorough { 200 } else { 136 };
    let mut evaluations = 0u64;
    let mut nontrivial = 0u64;
    let mut windows = 0u64;
    let mut sampled = 0;
    for log_bits in 0..=6usize {
        for log_region in if thorough { vec![3usize, 12] } else { vec![3usize] } {
            // window base chosen so that region 0 is word-aligned in the metadata
            let w = Window::new(log_bits, log_region, DATA_BASE, 2 * span);
            windows += 1;
            for kind in [Kind::Zero, Kind::Set, Kind::Copy] {
                for bg in 0..3u8 {
                    for s in 0..=span {
                        for n in 0..=span {
                            evaluations += 1;
                            // partial metadata byte at either end = the interesting case
                            let bits = 1usize << log_bits;
                            if (s * bits) % 8 != 0 || ((s + n) * bits) % 8 != 0 {
                                nontrivial += 1;
                            }
                            if let Err(m) = w.run_one(bg, kind, s, n) {
                                run.violation(
                                    format!("{:?}:{}", kind, if log_bits < 3 { "subbyte" } else { "wide" }).to_lowercase(),
                                    format!("{:?} log_bits={} log_region={} background={} start_region={} regions={}: {}", kind, log_bits, log_region, bg, s, n, m),
                                    json!({"kind": format!("{:?}", kind), "log_bits": log_bits, "log_region": log_region, "background": bg, "start": s, "regions": n, "base": DATA_BASE}),
                                );
                            }
                            if sampled < 3 && s == 5 && n == 13 && bg == 2 {
                                sampled += 1;
                                run.sample(json!({"kind": format!("{:?}", kind), "log_bits": log_bits, "log_region": log_region, "background": "hash pattern", "start_region": s, "regions": n}));
                            }
                        }
                    }
                }
            }
        }
    }
    // ranges around a 4 MiB chunk boundary of the data (metadata of two chunks is adjacent for a
    // contiguous spec; the range computation crosses the chunk)
    let chunk = 0x0100_0000usize; // a chunk-aligned data address
    let edges: Vec<usize> = if thorough { vec![0, 1, 7, 8, 9, 63, 64, 65, 127] } else { vec![0, 1, 8, 9, 65] };
    for log_bits in [0usize, 1, 3] {
        let log_region = 3usize;
        let back = 160usize;
        let w = Window::new(log_bits, log_region, chunk - back * 8, 2 * back);
        windows += 1;
        for kind in [Kind::Zero, Kind::Set, Kind::Copy] {
            for &k in &edges {
                for &j in &edges {
                    evaluations += 1;
                    nontrivial += 1;
                    if let Err(m) = w.run_one(2, kind, back - k, k + j) {
                        run.violation(
                            format!("{:?}:chunk_boundary", kind).to_lowercase(),
                            format!("{:?} log_bits={} across chunk boundary, {} regions before and {} after: {}", kind, log_bits, k, j, m),
                            json!({"kind": format!("{:?}", kind), "log_bits": log_bits, "log_region": log_region, "background": 2, "start": back - k, "regions": k + j, "base": chunk - back * 8}),
                        );
                    }
                }
            }
        }
    }
    run.set("states", windows);
    run.set("transitions", evaluations);
    run.set("evaluations", evaluations);
    run.set("traces_validated_against_impl", evaluations);
    run.set("distinct_nontrivial", nontrivial);
    run.set("exhaustive", true);
    run.set("max_depth", 1);
    run.set("rule", format!("every (start, size) with start in 0..={0} regions and size in 0..={0} regions over a {1}-region window whose region 0 is word-aligned in the metadata x widths 1..64 bits x {{bzero, bset, bcopy from a second spec}} x backgrounds {{00, ff, hash}}, plus ranges of k regions before and j after a 4 MiB chunk boundary; the whole dst metadata window +24/-32 bytes and the source are compared with a model image; non-trivial = the range starts or ends inside a metadata byte", span, 2 * span));
    run.assume("start and size are multiples of the region size (the property speaks of regions lying in the range)");
    // concurrent neighbours: a bulk zero / set that covers only part of a metadata byte against an
    // atomic update of a field of the same byte that lies OUTSIDE the range (it must stay
    // unchanged by the bulk operation): all interleavings at the hardware atomics (engine `baton`).
    // bcopy is documented as non-atomic and is not offered.
    {
        use super::metaconc::{race_probe, run_pairs, Kind::*};
        run_pairs(run, &[Bzero, Bset], &[Store, FetchOr, FetchAnd, FetchUpdate], thorough);
        // sampled companion (free-running threads; not part of the coverage claim)
        race_probe(run, &[Bzero, Bset], 200_000);
    }
    run.assume("concurrency: one bulk zero/set of a single sub-byte region per thread against one atomic accessor on another field of the same byte (1/2/4-bit specs), all interleavings");
}

pub fn replay(case: &Value, run: &mut Run) {
    init_side_metadata();
    if case["engine"] == "baton" {
        return super::metaconc::replay(case, run);
    }
    if case["engine"] == "race_probe" {
        return super::metaconc::replay_probe(case, run);
    }
    let kind = match case["kind"].as_str().unwrap() {
        "Zero" => Kind::Zero,
        "Set" => Kind::Set,
        _ => Kind::Copy,
    };
    let g = |k: &str| case[k].as_u64().unwrap() as usize;
    let w = Window::new(g("log_bits"), g("log_region"), g("base"), g("start") + g("regions") + 80);
    if let Err(m) = w.run_one(g("background") as u8, kind, g("start"), g("regions")) {
        run.violation("replay", m, case.clone());
    }
}
