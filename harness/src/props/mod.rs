use crate::common::{machinery_failure, Run};
use serde_json::Value;

pub mod c20;
pub mod c21;
pub mod c22;
pub mod c23;
pub mod c25;
pub mod c26;
pub mod c27;
pub mod c40;

pub fn run(id: &str, run: &mut Run) {
    match id {
        "C20" => c20::run(run),
        "C21" => c21::run(run),
        "C22" => c22::run(run),
        "C23" => c23::run(run),
        "C25" => c25::run(run),
        "C26" => c26::run(run),
        "C27" => c27::run(run),
        "C40" => c40::run(run),
        _ => machinery_failure(&format!("no check for property {}", id)),
    }
}

pub fn replay(id: &str, case: &Value, run: &mut Run) {
    match id {
        "C20" => c20::replay(case, run),
        "C21" => c21::replay(case, run),
        "C22" => c22::replay(case, run),
        "C23" => c23::replay(case, run),
        "C25" => c25::replay(case, run),
        "C26" => c26::replay(case, run),
        "C27" => c27::replay(case, run),
        "C40" => c40::replay(case, run),
        _ => machinery_failure(&format!("no replay for property {}", id)),
    }
}

pub fn child(id: &str, _args: &[String]) {
    machinery_failure(&format!("no child mode for property {}", id))
}
