use crate::common::{machinery_failure, Run};
use serde_json::Value;

pub mod baton_selftest;
pub mod c01;
pub mod c02;
pub mod c03;
pub mod c04;
pub mod c05;
pub mod c06;
pub mod c07;
pub mod c08;
pub mod c09;
pub mod c10;
pub mod c11;
pub mod c11b;
pub mod c12;
pub mod c13;
pub mod c14;
pub mod c15;
pub mod c16;
pub mod c17;
pub mod c17b;
pub mod c18;
pub mod c19;
pub mod c20;
pub mod c21;
pub mod c22;
pub mod c23;
pub mod c24;
pub mod c25;
pub mod c26;
pub mod c27;
pub mod c28;
pub mod c29;
pub mod c30;
pub mod c31;
pub mod c32;
pub mod c33;
pub mod c34;
pub mod c35;
pub mod c36;
pub mod c37;
pub mod c38;
pub mod c39;
pub mod c40;
pub mod metaconc;
pub mod sched;












pub fn run(id: &str, run: &mut Run) {
    match id {
        "C01" => c01::run(run),
        "C02" => c02::run(run),
        "C04" => c04::run(run),
        "C05" => c05::run(run),
        #[cfg(feature = "vo_bit")]
        "C07" => c07::run(run),
        #[cfg(feature = "vo_bit")]
        "C08" => c08::run(run),
        "C11" => c11::run(run),
        "C13" => c13::run(run),
        "C20" => c20::run(run),
        "C21" => c21::run(run),
        "C22" => c22::run(run),
        "C23" => c23::run(run),
        "C25" => c25::run(run),
        "C26" => c26::run(run),
        "C27" => c27::run(run),
        "C40" => c40::run(run),
        "C35" => c35::run(run),
        "C37" => c37::run(run),
        "C30" => c30::run(run),
        "C24" => c24::run(run),
        "C29" => c29::run(run),
        "C36" => c36::run(run),
        "C38" => c38::run(run),
        "C39" => c39::run(run),
        "C33" => c33::run(run),
        "C32" => c32::run(run),
        "BATON" => baton_selftest::run(run),
        "C17" => c17::run(run),
        "C18" => c18::run(run),
        "C19" => c19::run(run),
        "C06" => c06::run(run),
        "C34" => c34::run(run),
        "C31" => c31::run(run),
        "C09" => c09::run(run),
        "C28" => c28::run(run),
        "C14" => c14::run(run),
        "C15" => c15::run(run),
        "C16" => c16::run(run),
        "C03" => c03::run(run),
        "C10" => c10::run(run),
        "C12" => c12::run(run),
        _ => machinery_failure(&format!("no check for property {}", id)),
    }
}

pub fn replay(id: &str, case: &Value, run: &mut Run) {
    match id {
        "C01" => c01::replay(case, run),
        "C02" => c02::replay(case, run),
        "C04" => c04::replay(case, run),
        "C05" => c05::replay(case, run),
        #[cfg(feature = "vo_bit")]
        "C07" => c07::replay(case, run),
        #[cfg(feature = "vo_bit")]
        "C08" => c08::replay(case, run),
        "C11" => c11::replay(case, run),
        "C13" => c13::replay(case, run),
        "C20" => c20::replay(case, run),
        "C21" => c21::replay(case, run),
        "C22" => c22::replay(case, run),
        "C23" => c23::replay(case, run),
        "C25" => c25::replay(case, run),
        "C26" => c26::replay(case, run),
        "C27" => c27::replay(case, run),
        "C40" => c40::replay(case, run),
        "C35" => c35::replay(case, run),
        "C37" => c37::replay(case, run),
        "C30" => c30::replay(case, run),
        "C24" => c24::replay(case, run),
        "C29" => c29::replay(case, run),
        "C36" => c36::replay(case, run),
        "C38" => c38::replay(case, run),
        "C39" => c39::replay(case, run),
        "C33" => c33::replay(case, run),
        "C32" => c32::replay(case, run),
        "BATON" => baton_selftest::replay(case, run),
        "C17" => c17::replay(case, run),
        "C18" => c18::replay(case, run),
        "C19" => c19::replay(case, run),
        "C06" => c06::replay(case, run),
        "C34" => c34::replay(case, run),
        "C31" => c31::replay(case, run),
        "C09" => c09::replay(case, run),
        "C28" => c28::replay(case, run),
        "C14" => c14::replay(case, run),
        "C15" => c15::replay(case, run),
        "C16" => c16::replay(case, run),
        "C03" => c03::replay(case, run),
        "C10" => c10::replay(case, run),
        "C12" => c12::replay(case, run),
        _ => machinery_failure(&format!("no replay for property {}", id)),
    }
}

pub fn child(id: &str, args: &[String]) {
    match id {
        "C01" => c01::child(args),
        "C05" => c05::child(args),
        #[cfg(feature = "vo_bit")]
        "C07" => c07::child(args),
        #[cfg(feature = "vo_bit")]
        "C08" => c08::child(args),
        "C11" => c11::child(args),
        "C13" => c13::child(args),
        "C04" => c04::child(args),
        "C02" => c02::child(args),
        "C30" => c30::child(args),
        "C24" => c24::child(args),
        "C29" => c29::child(args),
        "C32" => c32::child(args),
        "C06" => c06::child(args),
        "C34" => c34::child(args),
        "C31" => c31::child(args),
        "C09" => c09::child(args),
        "C28" => c28::child(args),
        "C14" => c14::child(args),
        "C15" => c15::child(args),
        "C16" => c16::child(args),
        "C03" => c03::child(args),
        "C10" => c10::child(args),
        "C12" => c12::child(args),
        "C11b" => c11b::child(args),
        "C17" => c17b::child(args),
        _ => machinery_failure(&format!("no child mode for property {}", id)),
    }
}
