use crate::common::{machinery_failure, Run};
use serde_json::Value;

pub mod c40;

pub fn run(id: &str, run: &mut Run) {
    match id {
        "C40" => c40::run(run),
        _ => machinery_failure(&format!("no check for property {}", id)),
    }
}

pub fn replay(id: &str, case: &Value, run: &mut Run) {
    match id {
        "C40" => c40::replay(case, run),
        _ => machinery_failure(&format!("no replay for property {}", id)),
    }
}

pub fn child(id: &str, _args: &[String]) {
    machinery_failure(&format!("no child mode for property {}", id))
}
