//! C11, baton phase — two mutator threads request a collection concurrently (engine `baton`,
//! persistent mode, infrastructure of `props/sched.rs`, scenario `req2`).
//!
//! A real `MMTK<VerifVM>` instance with two bound mutators, each on its own OS thread (the
//! controller thread = mutator 0, a second baton thread = mutator 1; the binding's
//! multi-mutator mode, `vm::multi_*`: `stop_all_mutators` returns when every mutator sits in
//! `block_for_gc` or at a harness-level safepoint).  Each mutator calls
//! `handle_user_collection_request(tls, force = true, exhaustive = true)` once; every schedule of
//! the two mutators and the GC workers with at most the tier's preemption bound at the monitor /
//! shim / scheduler-protocol points, so that mutator 1's request is made before mutator 0's,
//! while it is pending (the request flag is set, the workers are starting the collection and wait
//! for mutator 1 to stop), or after its collection.
//!
//! Oracle (`c11:<clause>:req2`, from the event log): a forced request is never refused (the call
//! returns true; "force: the request cannot be ignored"), and it returns only after a collection
//! that stopped the world after the request was made has resumed the mutators ("If MMTk triggers a
//! GC, this method will block the calling thread and return true when the GC finishes").  The
//! scheduler clauses of the same executions (deadlock, request served, buckets ...) belong to C14 /
//! C15, which run the same scenario.

use crate::common::{Run, Tier};
use crate::props::sched::{self, ChildCfg, Job, Kind, Pattern, Plan};
use serde_json::Value;

pub fn owns(sig: &str) -> bool {
    sig.starts_with("c11:") && sig.ends_with(":req2")
}

pub fn is_case(case: &Value) -> bool {
    case["job"]["kind"].as_str() == Some("req2")
}

/// The `req2` children (also part of C14's plan).
pub fn plans(tier: Tier) -> Vec<Plan> {
    let thorough = tier == Tier::Thorough;
    let names: Vec<&str> = if thorough { vec!["SemiSpace", "MarkSweep", "Immix", "GenCopy"] } else { vec!["SemiSpace", "MarkSweep"] };
    let mut out = vec![];
    for (pi, plan) in names.iter().enumerate() {
        let worker_counts: Vec<usize> = if thorough && pi < 2 { vec![2, 3] } else { vec![2] };
        for workers in worker_counts {
            let cfg = ChildCfg { plan: plan.to_string(), workers, eph_chain: 1, refs: false, options: vec![], mutators: 2, bare: false };
            // measured (SemiSpace, 2 workers): 362 executions at (1 preemption, 0 free deviations), 19 of
            // them with both requests served by one collection; 10 243 at (1, 1)
            out.push(Plan { cfg: cfg.clone(), jobs: vec![Job { kind: Kind::Req2, pattern: Pattern::empty(), via_worker: false, bound: 1, free_bound: if thorough { 1 } else { 0 }, spurious: 0, prog: vec![] }] });
            if thorough && pi < 2 && workers == 2 {
                out.push(Plan { cfg, jobs: vec![Job { kind: Kind::Req2, pattern: Pattern::empty(), via_worker: false, bound: 2, free_bound: 0, spurious: 0, prog: vec![] }] });
            }
        }
    }
    out
}

/// The child id of this phase (`--child C11b ...`; "C11" is the id of the program-quantified phase).
pub const CHILD_ID: &str = "C11b";

pub fn run(run: &mut Run) {
    let plans = plans(run.tier);
    let n = plans.len() as u64;
    let mut sub = Run::new(CHILD_ID, run.tier);
    sub.jobs = run.jobs;
    sched::run_parent(&mut sub, plans, &owns, run.tier.pick(200, 1500));
    sched::merge_phase(run, sub, "two_requesters", n);
    run.set("two_requesters_rule", "per (plan {SemiSpace, MarkSweep; thorough + Immix, GenCopy}, GC workers {2; thorough 2, 3}): two mutator threads of a real MMTK instance make one forced handle_user_collection_request each; every interleaving of the two mutators and the GC workers at the worker-monitor / scheduler-protocol points and the binding's stop / block / resume protocol with at most the stated preemptions; oracle: no forced request returns false, and a request returns only after a collection that stopped the world after the request has resumed the mutators; non-trivial = an execution with a preemption");
    run.assume("baton phase: the binding stops the world when every mutator is inside block_for_gc or at a harness-level safepoint; the mutators do no heap work between request and return");
}

pub fn replay(case: &Value, run: &mut Run) {
    sched::replay(CHILD_ID, case, run);
}

pub fn child(args: &[String]) -> ! {
    sched::child(CHILD_ID, args)
}
