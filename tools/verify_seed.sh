#!/bin/bash
# tools/verify_seed.sh <ID> <variant>   e.g. C26 a
# Confirms a seeded change in its scratch worktree /tmp/seed/<ID>: (1) suite result unchanged with
# the patch, (2) demo fails with patch, (3) demo passes without.  On success copies it to
# /verif/seeded/<ID>-<variant>/ with a meta.json that records what was run.
set -u
ID="$1"; V="$2"
W=/tmp/seed/$ID; S=$W/SEED/$V
cd "$W" || exit 2
git checkout -q -- . && git clean -qfd -e SEED -e target
demo_cmd=$(python3 -c "import json;print(json.load(open('$S/meta.json'))['demo_cmd'])")
demo_cmd=${demo_cmd#cd $W && }
echo "demo_cmd: $demo_cmd"
git apply "$S/patch.diff" || { echo "SEED-FAIL patch does not apply"; exit 1; }
suite=$(cargo nextest run --workspace --no-fail-fast --offline --test-threads 8 2>&1 | grep -E "^\s+Summary" | tail -1)
echo "suite with patch: $suite"
echo "$suite" | grep -Eq "504 passed( \([^)]*\))?, 1 failed" || { echo "SEED-FAIL suite changed"; git checkout -q -- .; exit 1; }
git apply "$S/demo.diff" || { echo "SEED-FAIL demo does not apply"; git checkout -q -- .; exit 1; }
if (eval "$demo_cmd") >/tmp/seed/demo-$ID-$V-with.log 2>&1; then echo "SEED-FAIL demo passes with patch"; git checkout -q -- .; git clean -qfd -e SEED -e target; exit 1; fi
echo "demo fails with patch: ok ($(grep -E 'test result|panicked' /tmp/seed/demo-$ID-$V-with.log | head -2 | tr '\n' ' '))"
git apply -R "$S/patch.diff" || { echo "SEED-FAIL cannot revert patch"; exit 1; }
if ! (eval "$demo_cmd") >/tmp/seed/demo-$ID-$V-without.log 2>&1; then echo "SEED-FAIL demo fails without patch"; git checkout -q -- .; git clean -qfd -e SEED -e target; exit 1; fi
echo "demo passes without patch: ok"
git checkout -q -- . && git clean -qfd -e SEED -e target
D=/verif/seeded/$ID-$V
mkdir -p "$D" && cp "$S/patch.diff" "$S/demo.diff" "$D/"
python3 - "$S/meta.json" "$D/meta.json" "$suite" "$demo_cmd" <<'PY'
import json,sys
m=json.load(open(sys.argv[1]))
m["confirmed"]={"suite_with_patch":sys.argv[3].strip(),"demo_cmd":sys.argv[4],"demo_with_patch":"fails","demo_without_patch":"passes","how":"tools/verify_seed.sh in a scratch worktree of /repo (removed afterwards)"}
m.setdefault("detected_by",None)
json.dump(m,open(sys.argv[2],"w"),indent=1)
PY
echo "SEED-OK $ID-$V"
