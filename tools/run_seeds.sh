#!/bin/bash
# tools/run_seeds.sh [tier] <seed-dir-name>...   (default: all of /verif/seeded/*)
# Applies each seeded change to /repo's working tree, runs the check of the property it breaks,
# restores the tree and records the outcome in the seed's meta.json ("detected_by").
TIER=quick
if [ "${1:-}" = "quick" ] || [ "${1:-}" = "thorough" ]; then TIER=$1; shift; fi
cd /verif/seeded || exit 2
SEEDS="$@"; [ -z "$SEEDS" ] && SEEDS=$(ls)
for s in $SEEDS; do
  [ -f "/verif/seeded/$s/patch.diff" ] || continue
  PATCH="/verif/seeded/$s/patch.diff"; [ -f "/verif/seeded/$s/patch-rebased.diff" ] && PATCH="/verif/seeded/$s/patch-rebased.diff"
  ID=$(python3 -c "import json;print(json.load(open('/verif/seeded/$s/meta.json'))['property'])")
  cd /repo; git diff --quiet || { echo "repo dirty"; exit 2; }
  git apply "$PATCH" 2>/dev/null || git apply --3way "$PATCH" 2>/dev/null || patch -p1 -F3 -s < "$PATCH" || { echo "$s: patch does not apply"; continue; }
  out=$(/verif/check "$ID" --tier "$TIER" 2>&1); rc=$?
  git checkout -q -- .
  sig=$(echo "$out" | grep -m1 "signature=" | sed 's/^ *//' | cut -c1-300)
  echo "$s property=$ID tier=$TIER exit=$rc $sig"
  python3 - "$s" "$ID" "$TIER" "$rc" "$sig" <<'PY'
import json,sys
s,ID,tier,rc,sig=sys.argv[1:6]
p=f"/verif/seeded/{s}/meta.json"
m=json.load(open(p))
d=m.get("detected_by") or {}
d[tier]={"check":f"./check {ID} --tier {tier}","exit":int(rc),"detected":rc=="1","first_violation":sig}
m["detected_by"]=d
json.dump(m,open(p,"w"),indent=1)
PY
  cd /verif/seeded
done
