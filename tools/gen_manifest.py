#!/usr/bin/env python3
"""Generate /verif/MANIFEST.json from the table in tools/claims.json (one entry per claimed
property) so that the manifest is always schema-valid.  Properties without an entry are listed
under not_applicable with the reason given in claims.json["unclaimed"] (or a default)."""
import json, os, subprocess, sys
root = os.path.dirname(os.path.dirname(os.path.abspath(__file__)))
claims = json.load(open(os.path.join(root, "tools", "claims.json")))
props = [json.loads(l) for l in open(os.path.join(root, "properties.jsonl"))]
hook_commits = subprocess.run(["git", "-C", "/repo", "log", "--format=%H %s"], capture_output=True, text=True).stdout.splitlines()
hook_commits = [l.split()[0] for l in hook_commits if l.split(" ", 1)[1].startswith("verif hooks")]
checks, na = [], []
for p in props:
    pid = p["id"]
    c = claims["checks"].get(pid)
    if not c:
        na.append({"property_id": pid, "reason": claims.get("unclaimed", {}).get(pid, "check not built yet in this round (planned: DESIGN.md section 5)")})
        continue
    e = {
        "property_id": pid,
        "quick_cmd": f"./check {pid} --tier quick",
        "thorough_cmd": f"./check {pid} --tier thorough",
        "evidence_file": f"/verif/evidence/{pid}.json",
        "replay_cmd_template": f"./check {pid} --replay {{path}}",
        "engine": c["engine"],
        "level_claimed": {"category": "model_checking", "text": c["text"], "design_ref": c.get("design_ref", f"DESIGN.md section 5, {pid}")},
        "level_note": c["note"],
        "technique": c["technique"],
    }
    checks.append(e)
m = {
    "version": 1,
    "setup_cmd": "./check --build",
    "hooks": {
        "guard": "cargo feature `verif` of crate mmtk",
        "enable": "harness crates depend on mmtk = { path = \"/repo\", features = [\"verif\", \"test_private\", ...] }; no RUSTFLAGS",
        "baseline_off_cmd": "cd /repo && cargo nextest run --workspace --no-fail-fast --tool-config-file pb:/w/lib/nextest.toml --profile pb --test-threads 8 --offline",
        "source_commits": list(reversed(hook_commits)),
        "add_only": True,
    },
    "engines": claims["engines"],
    "checks": checks,
    "notes": claims.get("notes", ""),
    "not_applicable": na,
}
json.dump(m, open(os.path.join(root, "MANIFEST.json"), "w"), indent=1)
print(f"claimed {len(checks)} / not_applicable {len(na)}")
try:
    import jsonschema
    jsonschema.validate(m, json.load(open("/root/.vp/MANIFEST.schema.json")))
    print("manifest validates")
except ImportError:
    pass
