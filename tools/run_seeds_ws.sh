#!/bin/bash
# tools/run_seeds_ws.sh [tier] <seed>...   — like run_seeds.sh, but in a scratch workspace
# (/tmp/b/SR: worktree of /repo HEAD + copy of the harness) so that /repo itself stays untouched
# and other work can go on.  Records the outcome in the seed's meta.json.
TIER=quick
if [ "${1:-}" = "quick" ] || [ "${1:-}" = "thorough" ]; then TIER=$1; shift; fi
W=/tmp/b/${SR_NAME:-SR}
[ -d $W ] || /verif/tools/builder_setup.sh ${SR_NAME:-SR} >/dev/null
git -C $W/repo checkout -q -- . ; git -C $W/repo checkout -q --detach "$(git -C /repo rev-parse HEAD)"
rsync -a --delete --exclude target /verif/harness/src/ $W/harness/src/
cp /verif/harness/Cargo.toml $W/harness/Cargo.toml; sed -i "s#path = \"/repo\"#path = \"$W/repo\"#" $W/harness/Cargo.toml
cp /verif/known_findings.json $W/vr/
for s in "$@"; do
  [ -f "/verif/seeded/$s/patch.diff" ] || continue
  PATCH="/verif/seeded/$s/patch.diff"; [ -f "/verif/seeded/$s/patch-rebased.diff" ] && PATCH="/verif/seeded/$s/patch-rebased.diff"
  ID=$(python3 -c "import json;print(json.load(open('/verif/seeded/$s/meta.json'))['property'])")
  IDS="${SEED_CHECKS:-$ID}"
  git -C $W/repo apply "$PATCH" 2>/dev/null || git -C $W/repo apply --3way "$PATCH" 2>/dev/null || (cd $W/repo && patch -p1 -F3 -s < "$PATCH") || { echo "$s: patch does not apply"; continue; }
  for C in $IDS; do
    out=$($W/run "$C" --tier "$TIER" 2>&1); rc=$?
    sig=$(echo "$out" | grep -m1 "signature=" | sed 's/^ *//' | cut -c1-300)
    echo "$s check=$C tier=$TIER exit=$rc $sig"
    python3 - "$s" "$C" "$TIER" "$rc" "$sig" <<'PY'
import json,sys
s,ID,tier,rc,sig=sys.argv[1:6]
p=f"/verif/seeded/{s}/meta.json"
m=json.load(open(p))
d=m.get("detected_by") or {}
d[f"{ID}:{tier}"]={"check":f"./check {ID} --tier {tier}","exit":int(rc),"detected":rc=="1","first_violation":sig}
m["detected_by"]=d
json.dump(m,open(p,"w"),indent=1)
PY
  done
  git -C $W/repo checkout -q -- . ; git -C $W/repo reset -q ; git -C $W/repo clean -qfd -e target
done
