#!/bin/bash
# tools/mutant.sh <patch-file> <ID> [tier]   — apply a patch to /repo's working tree, run the
# check, restore the tree.  Prints the check's verdict lines; exit code is the check's.
set -u
P="$1"; ID="$2"; TIER="${3:-quick}"
cd /repo || exit 2
if ! git diff --quiet; then echo "repo working tree not clean"; exit 2; fi
git apply "$P" || { echo "patch does not apply"; exit 2; }
/verif/check "$ID" --tier "$TIER" 2>&1 | grep -E "VIOLATION|KNOWN-FINDING|SUMMARY|MACHINERY|signature" | head -20
rc=${PIPESTATUS[0]}
git checkout -- . && git status --short | head
echo "mutant exit=$rc"
exit $rc
