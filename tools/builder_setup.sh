#!/bin/bash
# tools/builder_setup.sh <NAME>  — scratch workspace for a check-building sub-agent:
#   /tmp/b/<NAME>/repo     git worktree of /repo HEAD (hooks may be added there)
#   /tmp/b/<NAME>/harness  copy of /verif/harness depending on that worktree (own target dir)
#   /tmp/b/<NAME>/vr       VERIF_ROOT for runs (evidence/, out/)
#   /tmp/b/<NAME>/OUT      deliverables
set -eu
N="$1"; W=/tmp/b/$N
[ -d "$W" ] && { echo "$W exists"; exit 0; }
mkdir -p "$W/vr" "$W/OUT"
git -C /repo worktree add --detach "$W/repo" HEAD >/dev/null 2>&1
mkdir -p "$W/harness"
rsync -a --exclude target /verif/harness/ "$W/harness/"
rsync -a --exclude target /verif/harness/ "$W/harness.orig/"   # pristine copy for `diff -ru`
sed -i "s#path = \"/repo\"#path = \"$W/repo\"#" "$W/harness/Cargo.toml"
cp /verif/known_findings.json "$W/vr/"
cp /verif/properties.jsonl "$W/vr/"
cat > "$W/run" <<EOS
#!/bin/bash
# usage: $W/run <ID> [--tier quick|thorough] [--replay file]   (builds first)
set -u
cd $W/harness || exit 2
export CARGO_NET_OFFLINE=true VERIF_ROOT=$W/vr
CARGO_TARGET_DIR=$W/harness/target cargo build --release --offline >$W/vr/build.log 2>&1 || { echo "BUILD FAILED"; grep -E "^(error|warning: unused)" -A12 $W/vr/build.log | head -80; exit 2; }
exec $W/harness/target/release/mmtk-verif "\$@"
EOS
chmod +x "$W/run"
echo "$W ready"
