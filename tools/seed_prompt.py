#!/usr/bin/env python3
"""Print the prompt for a seeding sub-agent for one property, and create its worktree."""
import json, sys, subprocess, os
pid = sys.argv[1]
props = {json.loads(l)["id"]: json.loads(l) for l in open("/verif/properties.jsonl")}
p = props[pid]
d = f"/tmp/seed/{pid}"
if not os.path.exists(d):
    os.makedirs("/tmp/seed", exist_ok=True)
    subprocess.run(["git", "-C", "/repo", "worktree", "add", "--detach", d, "HEAD"], check=True, capture_output=True)
print(f"""You are working in a scratch git worktree of the mmtk-core repository (Rust; MMTk core, a garbage-collection framework) at {d}. Work ONLY inside {d}: never read or modify /repo, /verif or any other worktree. The sandbox has no network: always pass --offline to cargo. 16 cores are shared with other jobs.

Here is a semantic property of mmtk-core that is supposed to hold (JSON record):

{json.dumps(p, indent=1)}

Your task: produce a realistic change to the mmtk-core sources (under {d}/src) that BREAKS this property, such that
 (a) the crate still compiles,
 (b) the existing test suite still passes exactly as before: run `cd {d} && cargo nextest run --workspace --no-fail-fast --offline --test-threads 8` (fallback `cargo test --workspace --no-fail-fast --offline`) — before your change it gives 504 passed and 1 failed (the known failure is util::metadata::side_metadata::sanity::tests::test_side_metadata_sanity_verify_no_overlap_contiguous); with your change it must give exactly the same,
 (c) the breakage needs something specific to manifest — a particular thread interleaving, a fault at a particular point, a multi-step sequence of operations, an unusual input/configuration, or two cooperating sites that each look fine alone — NOT something ordinary use would expose at once. Think of the kind of bug a maintainer could plausibly introduce in a refactoring or optimisation (an off-by-one at a boundary, a wrong mask, a dropped wake-up, a check-then-act race, swapped operands, a stale value after wrap-around ...). Do not add obviously malicious code, do not change public API signatures, and do not touch tests or files under src/util/verif.rs.

Also write a demonstration: a unit test (or small program) that FAILS with your change and PASSES without it. The easiest way is a new `#[cfg(test)]` test module or a new test function inside the crate (tests may use crate-private items and the `mock_test` feature if needed: `cargo test --offline --features mock_test <name>`), kept as a separate patch. If an end-to-end collection cannot be driven from the repository's own test infrastructure (the MockVM of `mock_test` does not run real collections), the demonstration may exercise the affected component directly (the function or data structure you changed, with the specific inputs/sequence that expose the breakage) — but it must fail because of the property-relevant misbehaviour, not because of an incidental difference.

If you can think of two genuinely different such changes (different code sites or mechanisms), deliver both (variant a and b); one is fine.

Deliverables (create the directory {d}/SEED):
 - {d}/SEED/a/patch.diff  : `git diff` of the source change ONLY (no tests), relative to HEAD, must apply with `git apply` from the repo root.
 - {d}/SEED/a/demo.diff   : a separate patch (also relative to HEAD, applies independently of patch.diff) that only ADDS the demonstration test.
 - {d}/SEED/a/meta.json   : {{"property": "{pid}", "summary": "...what the change does...", "needs_to_manifest": "...the specific input/sequence/interleaving...", "demo_cmd": "the exact cargo command that runs the demonstration", "suite_result_with_change": "N passed, M failed"}}
 - (optionally the same under {d}/SEED/b/)
Before finishing, verify yourself: (1) with patch.diff applied the full suite result is unchanged; (2) with patch.diff + demo.diff the demo fails; (3) with only demo.diff the demo passes. Finally leave the worktree clean (`git checkout -- . && git clean -fd -e SEED -e target`), keeping only SEED/ (and target/). Report briefly what you did.""")
