#!/bin/bash
# tools/integrate.sh <NAME> <ID> [<ID>...]  — integrate a builder agent's deliverables:
# hooks.diff -> /repo (own commit), cNN.rs -> harness/src/props (+ registration), claim -> claims.json,
# mutants -> /verif/mutants/.
set -eu
N="$1"; shift
OUT=/tmp/b/$N/OUT
cd /repo
if [ -s "$OUT/hooks.diff" ]; then
  if ! git apply --exclude=src/util/verif.rs "$OUT/hooks.diff" 2>/dev/null; then
    # appends at the same place as an earlier hook: 3-way apply, then take the union
    git apply --3way --exclude=src/util/verif.rs "$OUT/hooks.diff" || true
    for f in $(git diff --name-only --diff-filter=U); do
      sed -i -e '/^<<<<<<< /d' -e '/^=======$/d' -e '/^>>>>>>> /d' "$f"
      git add "$f"
    done
  fi
  for ID in "$@"; do
    m=$(echo "$ID" | tr 'A-Z' 'a-z')
    if [ -f "src/util/verif/$m.rs" ] && ! grep -q "pub mod $m;" src/util/verif.rs; then echo "pub mod $m;" >> src/util/verif.rs; fi
  done
  # other lines the agent added to verif.rs (rare): show them
  git -C /tmp/b/$N/repo diff 54906c7 -- src/util/verif.rs | grep '^+' | grep -v '^+++' | grep -v 'pub mod c[0-9]' || true
  files=$(git apply --numstat "$OUT/hooks.diff" | awk '{print $3}')
  git add $files src/util/verif.rs
  git commit -qm "verif hooks: $* accessors (add-only, feature verif)"
  echo "hooks committed: $(git log --oneline | head -1)"
  # the guard-off build must still compile
  (cd /repo && cargo check --offline 2>&1 | grep -E "^error" -A6 | head -20)
fi
cd /verif
for ID in "$@"; do
  m=$(echo "$ID" | tr 'A-Z' 'a-z')
  cp "$OUT/$m.rs" harness/src/props/$m.rs
  python3 - "$ID" "$m" "$OUT" <<'PY'
import sys,json,os,re
ID,m,OUT=sys.argv[1:4]
p='/verif/harness/src/props/mod.rs'
s=open(p).read()
if f'pub mod {m};' not in s:
    mods=sorted(set(re.findall(r'^pub mod (\w+);\n',s,flags=re.M))|{m})
    s=re.sub(r'^pub mod \w+;\n','',s,flags=re.M)
    s=s.replace('use serde_json::Value;\n','use serde_json::Value;\n\n'+''.join(f'pub mod {x};\n' for x in mods),1)
    s=s.replace('        _ => machinery_failure(&format!("no check for property {}", id)),', f'        "{ID}" => {m}::run(run),\n        _ => machinery_failure(&format!("no check for property {{}}", id)),')
    s=s.replace('        _ => machinery_failure(&format!("no replay for property {}", id)),', f'        "{ID}" => {m}::replay(case, run),\n        _ => machinery_failure(&format!("no replay for property {{}}", id)),')
    src=open(f'/verif/harness/src/props/{m}.rs').read()
    if re.search(r'pub fn child\(', src):
        s=s.replace('        _ => machinery_failure(&format!("no child mode for property {}", id)),', f'        "{ID}" => {m}::child(args),\n        _ => machinery_failure(&format!("no child mode for property {{}}", id)),')
    open(p,'w').write(s)
c=json.load(open('/verif/tools/claims.json'))
cf=None
for cand in [f'{OUT}/claim-{ID}.json', f'{OUT}/claim.json']:
    if os.path.exists(cand): cf=cand; break
cl=json.load(open(cf))
c['checks'][ID]={k:cl[k] for k in ('engine','technique','text','note')}
eng=cl['engine']
for e in c['engines']:
    if e['name']==eng:
        e['serves_properties']=sorted(set(e['serves_properties'])|{ID}); break
else:
    c['engines'].append({"name":eng,"path":f"harness/src/{eng}.rs","serves_properties":[ID],"kind_free_text":""})
json.dump(c,open('/verif/tools/claims.json','w'),indent=1)
PY
  mkdir -p mutants
  for f in "$OUT"/mutants/*.diff; do [ -f "$f" ] && cp "$f" "mutants/$ID-$(basename "$f")"; done
done
echo integrated "$@"
